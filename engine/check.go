package main

import (
	"encoding/json"
	"fmt"
	"golang.org/x/tools/go/ssa"
	"os"
	"path/filepath"
	"sort"
	"strings"
	"time"
)

type evidence struct {
	PropertyID  string         `json:"property_id"`
	Tier        string         `json:"tier"`
	Seed        int            `json:"seed"`
	Level       string         `json:"level"`
	Coverage    map[string]any `json:"coverage"`
	Assumptions []string       `json:"assumptions"`
	WallS       float64        `json:"wall_s"`
	Violations  int            `json:"violations"`
}

func hasProp(ps []string, p string) bool {
	for _, x := range ps {
		if x == p {
			return true
		}
	}
	return false
}

type violation struct {
	obl    string
	reason string
	output string
	pos    string
	model  string
	oblRef *Obligation
}

func checkProperty(prog *Program, prop, tier string, seed, timeoutS int, loadS float64, keep, verbose bool) int {
	start := time.Now()
	work := filepath.Join(os.TempDir(), fmt.Sprintf("gbv-%s-%d", prop, os.Getpid()))
	defer func() {
		if !keep {
			os.RemoveAll(work)
		}
	}()
	var keys []string
	for _, k := range sortedKeys(prog.CS.Funcs) {
		fc := prog.CS.Funcs[k]
		if hasProp(fc.Props, prop) && !fc.External && !fc.Trusted && !isIfaceMethodKey(prog, k) {
			keys = append(keys, k)
		}
	}
	var all []*Obligation
	var results []*funcResult
	var viols []violation
	assumptions := map[string]bool{}
	var trusted []string
	for _, e := range prog.CS.Errors {
		viols = append(viols, violation{obl: "contract-files#parse", reason: e})
	}
	for _, k := range keys {
		fr := verifyFunc(prog, k, prog.CS.Funcs[k])
		results = append(results, fr)
		all = append(all, fr.Obls...)
		for _, n := range fr.Notes {
			assumptions[n] = true
		}
		if len(fr.Errs) > 0 {
			// one violation per function: the contract no longer binds to the code (all reasons in the replay file)
			seen := map[string]bool{}
			var rs []string
			for _, e := range fr.Errs {
				if !seen[e] {
					seen[e] = true
					rs = append(rs, e)
				}
			}
			viols = append(viols, violation{obl: k + "#contract-binding", reason: strings.Join(rs, "; ")})
		}
	}
	// lemmas of this property
	lemmaObls := lemmaObligations(prog, prop, assumptions)
	all = append(all, lemmaObls...)
	for _, k := range sortedKeys(prog.CS.Funcs) {
		fc := prog.CS.Funcs[k]
		if (fc.External || fc.Trusted) && hasProp(fc.Props, prop) {
			trusted = append(trusted, "assumed contract: "+k)
		}
	}
	opt := solveOpts{timeoutS: timeoutS, workDir: work, seed: seed}
	discharge(all, opt)
	if tier == "thorough" {
		// second configuration: different seed, z3 4.8 first; every obligation must also hold there
		second := make([]*Obligation, 0, len(all))
		for _, o := range all {
			c := *o
			second = append(second, &c)
		}
		discharge(second, solveOpts{timeoutS: timeoutS, workDir: work + "-2", seed: seed + 7, solvers: []string{"z3", "z3-new-a2", "z3-new", "cvc5"}})
		defer os.RemoveAll(work + "-2")
		for i, o := range second {
			if all[i].Status == "unsat" && !o.ExpectSat && o.Status != "unsat" {
				all[i].Status = "unstable:" + o.Status
				all[i].Output = "second solver configuration: " + o.Output
			}
		}
	}
	// functions with a failed proof obligation: their unreachable-return (cover) failures are a consequence
	// of assuming the failed check afterwards, not a separate vacuity problem
	failedFn := map[string]bool{}
	for _, o := range all {
		if !o.ExpectSat && o.Status != "unsat" {
			failedFn[o.Fn] = true
		}
	}
	// an unreachable return alone is dead code (reported in the evidence), not vacuity; a function none of
	// whose returns is reachable, or whose entry assumptions are contradictory, is
	allReturnsDead := map[string]bool{}
	hasReturn := map[string]bool{}
	liveReturn := map[string]bool{}
	var deadReturns []string
	for _, o := range all {
		if o.ExpectSat && strings.Contains(o.Name, "#cover:return") {
			hasReturn[o.Fn] = true
			if o.Status != "unsat" {
				liveReturn[o.Fn] = true
			} else {
				deadReturns = append(deadReturns, o.Name)
			}
		}
	}
	for fn := range hasReturn {
		if !liveReturn[fn] {
			allReturnsDead[fn] = true
		}
	}
	nObl, nDis := 0, 0
	var samples []any
	solverTime := 0.0
	bySolver := map[string]int{}
	for _, o := range all {
		solverTime += o.Seconds
		if o.ExpectSat {
			if o.Status == "unsat" && !failedFn[o.Fn] && (strings.HasSuffix(o.Name, "#cover:entry") || allReturnsDead[o.Fn]) {
				viols = append(viols, violation{obl: o.Name, reason: "vacuity: " + o.Name + " is unsatisfiable (contradictory assumptions)", output: o.Output, pos: o.Pos})
			}
			continue
		}
		nObl++
		if o.Status == "unsat" {
			nDis++
			bySolver[o.Solver]++
			if len(samples) < 12 {
				samples = append(samples, map[string]any{"obligation": o.Name, "at": o.Pos, "solver": o.Solver, "seconds": round3(o.Seconds)})
			}
			continue
		}
		v := violation{obl: o.Name, reason: "obligation not discharged: " + o.Status, output: o.Output, pos: o.Pos, oblRef: o}
		if o.Status == "sat" {
			v.model = getModel(o, opt)
		}
		viols = append(viols, v)
	}
	// known findings
	known := loadKnown()
	exit := 0
	var unknownViols []violation
	knownSeen := []string{}
	for _, v := range viols {
		matched := false
		for _, k := range known {
			if k.Status == "known" && k.Property == prop && k.Obligation == v.obl {
				fmt.Printf("KNOWN-FINDING: property=%s %s %s\n", prop, k.Obligation, k.What)
				knownSeen = append(knownSeen, k.Obligation)
				matched = true
				break
			}
		}
		if !matched {
			unknownViols = append(unknownViols, v)
		}
	}
	os.MkdirAll(filepath.Join(outDir, "replay"), 0o755)
	for _, v := range unknownViols {
		exit = 1
		rp := filepath.Join(outDir, "replay", prop+"-"+fileSafe(v.obl)+".txt")
		replayed := replayViolation(prog, prop, v, rp)
		suffix := ""
		if !replayed {
			suffix = " no-failing-input-found"
		}
		fmt.Printf("VIOLATION property=%s replay=%s obligation=%s%s\n", prop, rp, v.obl, suffix)
	}
	if nObl == 0 && exit == 0 {
		fmt.Printf("VIOLATION property=%s replay=%s obligation=none-generated no-failing-input-found\n", prop, filepath.Join(outDir, "replay", prop+"-vacuous.txt"))
		os.WriteFile(filepath.Join(outDir, "replay", prop+"-vacuous.txt"), []byte("no obligations were generated for "+prop+"\n"), 0o644)
		exit = 1
	}
	// evidence
	var fnames []string
	nWarn := 0
	var warns []string
	for _, r := range results {
		fnames = append(fnames, r.Key)
		nWarn += len(r.Warns)
		for _, w := range r.Warns {
			warns = append(warns, r.Key+": "+w)
		}
	}
	var as []string
	for a := range assumptions {
		as = append(as, a)
	}
	sort.Strings(as)
	as = append(as, "the VC generator (go/ssa -> SMT translation, contract parser), go/ssa, go/types and the SMT solvers are trusted")
	tb := append([]string{"gbv VC generator (/verif/engine)", "golang.org/x/tools/go/ssa v0.29.0", "z3 4.8.12 / z3 5.1.0"}, trusted...)
	for _, a := range as {
		if strings.HasPrefix(a, "assumed contract") || strings.HasPrefix(a, "uncontracted callee") || strings.HasPrefix(a, "axiom ") {
			tb = append(tb, a)
		}
	}
	var lemmaNames []string
	for _, o := range lemmaObls {
		lemmaNames = append(lemmaNames, o.Name)
	}
	ev := evidence{PropertyID: prop, Tier: tier, Seed: seed, Level: "proof", Assumptions: as, WallS: round3(time.Since(start).Seconds() + loadS), Violations: len(unknownViols)}
	// obligations listed as known findings are reported, not claimed: they are neither counted as proof
	// obligations of this run nor as discharged
	claimed := nObl - len(knownSeen)
	ev.Coverage = map[string]any{
		"obligations":              claimed,
		"obligations_generated":    nObl,
		"discharged":               nDis,
		"checker_cmd":              fmt.Sprintf("/verif/bin/gbv check %s --tier %s", prop, tier),
		"trusted_base":             tb,
		"functions_under_contract": fnames,
		"lemmas":                   lemmaNames,
		"samples":                  samples,
		"discharged_by_solver":     bySolver,
		"solver_seconds_total":     round3(solverTime),
		"load_and_ssa_seconds":     round3(loadS),
		"cover_checks":             len(all) - nObl,
		"known_findings_seen":      knownSeen,
		"translation_warnings":     warns,
		"unreachable_returns":      deadReturns,
		"per_query_timeout_s":      timeoutS,
	}
	if claimed <= 0 {
		ev.Coverage["obligations"] = 0
	}
	data, _ := json.MarshalIndent(ev, "", " ")
	os.MkdirAll(filepath.Join(outDir, "evidence"), 0o755)
	os.WriteFile(filepath.Join(outDir, "evidence", prop+".json"), data, 0o644)
	fmt.Printf("%s: %d functions under contract, %d obligations, %d discharged, %d violations, %.1fs\n", prop, len(keys), nObl, nDis, len(unknownViols), time.Since(start).Seconds()+loadS)
	if verbose {
		for _, o := range all {
			fmt.Printf("  %-8s %6.2fs %-7s %s\n", o.Status, o.Seconds, o.Solver, o.Name)
		}
	}
	return exit
}

func round3(f float64) float64 { return float64(int(f*1000+0.5)) / 1000 }

func writeLoadFailure(prop, tier string, seed int, err error, wall float64) {
	os.MkdirAll(filepath.Join(outDir, "replay"), 0o755)
	rp := filepath.Join(outDir, "replay", prop+"-load-failure.txt")
	os.WriteFile(rp, []byte("the repository (with -tags verif) does not load/type-check:\n"+err.Error()+"\n"), 0o644)
	fmt.Printf("VIOLATION property=%s replay=%s obligation=load no-failing-input-found\n", prop, rp)
	ev := evidence{PropertyID: prop, Tier: tier, Seed: seed, Level: "proof", WallS: wall, Violations: 1,
		Coverage: map[string]any{"obligations": 1, "discharged": 0, "checker_cmd": "/verif/bin/gbv check " + prop, "trusted_base": []string{}, "explanation": "load failure: " + err.Error()}}
	data, _ := json.MarshalIndent(ev, "", " ")
	os.MkdirAll(filepath.Join(outDir, "evidence"), 0o755)
	os.WriteFile(filepath.Join(outDir, "evidence", prop+".json"), data, 0o644)
}

// replayViolation writes the replay file; returns true if a concrete failing input was confirmed on the real code.
func replayViolation(prog *Program, prop string, v violation, path string) bool {
	var sb strings.Builder
	fmt.Fprintf(&sb, "property: %s\nfailed obligation: %s\nat: %s\nreason: %s\n", prop, v.obl, v.pos, v.reason)
	confirmed := false
	if v.oblRef != nil || strings.HasSuffix(v.obl, "#contract-binding") {
		ok, txt := tryReplay(prog, v)
		confirmed = ok
		sb.WriteString(txt)
	}
	sb.WriteString("\n---- solver output ----\n")
	out := v.output
	if len(out) > 20000 {
		out = out[:20000] + "\n...[truncated]"
	}
	sb.WriteString(out)
	if v.model != "" {
		sb.WriteString("\n---- model ----\n")
		m := v.model
		if len(m) > 60000 {
			m = m[:60000] + "\n...[truncated]"
		}
		sb.WriteString(m)
	}
	os.WriteFile(path, []byte(sb.String()), 0o644)
	return confirmed
}

// lemmaObligations: pure lemmas attached to the property.
func lemmaObligations(prog *Program, prop string, assumptions map[string]bool) []*Obligation {
	var out []*Obligation
	for _, lm := range prog.CS.Lemmas {
		if !hasProp(lm.Props, prop) {
			continue
		}
		tr := &trans{prog: prog, key: "lemma." + lm.Name, vc: NewVC(prog), vals: nil, stateSort: map[string]Sort{"$next": "Int"}, known: map[string]bool{},
			pure: map[string]*fnRef{}, assumed: map[string]bool{}, specRefs: map[string]*fnRef{}, globals: map[string]string{}, nobl: map[string]int{}, final: true, localAllocs: map[*ssa.Alloc]bool{}, heapRefs: map[string]string{}}
		tr.entry = State{}
		env := &Env{tr: tr, vc: tr.vc, pkgPath: lm.PkgPath, st: tr.entry, old: tr.entry, vars: map[string]SV{}, lets: map[string]Expr{}, errs: &tr.errs}
		tr.axioms()
		goal := env.elabBool(lm.E)
		o := &Obligation{Name: "lemma." + lm.Name, Kind: "lemma", Fn: "lemma." + lm.Name, Goal: goal, BodyLen: len(tr.vc.body), vc: tr.vc, Props: lm.Props, Pos: fmt.Sprintf("%s:%d", strings.TrimPrefix(lm.File, prog.RepoDir+"/"), lm.Line)}
		if len(tr.errs) > 0 {
			o.Goal = "false"
			o.Name += "#elaboration-error:" + strings.Join(tr.errs, ";")
		}
		for n := range tr.assumed {
			assumptions[n] = true
		}
		out = append(out, o)
	}
	return out
}
