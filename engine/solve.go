package main

import (
	"bytes"
	"context"
	"fmt"
	"hash/fnv"
	"os"
	"os/exec"
	"path/filepath"
	"strings"
	"sync"
	"time"
)

type solverCfg struct {
	name string
	args func(file string, timeoutS int, seed int) []string
}

var solvers = []solverCfg{
	{"z3-new", func(f string, t int, seed int) []string {
		a := []string{"z3-new", fmt.Sprintf("-T:%d", t)}
		if seed != 0 {
			a = append(a, fmt.Sprintf("smt.random_seed=%d", seed), fmt.Sprintf("sat.random_seed=%d", seed))
		}
		return append(a, f)
	}},
	{"z3-new-a2", func(f string, t int, seed int) []string {
		// the previous simplex core: decides some linear-arithmetic-heavy goals the default core does not
		a := []string{"z3-new", fmt.Sprintf("-T:%d", t), "smt.arith.solver=2"}
		if seed != 0 {
			a = append(a, fmt.Sprintf("smt.random_seed=%d", seed))
		}
		return append(a, f)
	}},
	{"z3", func(f string, t int, seed int) []string {
		a := []string{"/usr/bin/z3", fmt.Sprintf("-T:%d", t)}
		if seed != 0 {
			a = append(a, fmt.Sprintf("smt.random_seed=%d", seed))
		}
		return append(a, f)
	}},
	{"cvc5", func(f string, t int, seed int) []string {
		return []string{"cvc5", fmt.Sprintf("--tlimit=%d", t*1000), "--full-saturate-quant", f}
	}},
}

type solveOpts struct {
	timeoutS int
	workDir  string
	seed     int
	solvers  []string // subset by name; empty = z3-new, z3
	models   bool
	par      int
}

func obligationText(o *Obligation, models bool) string {
	var sb strings.Builder
	sb.WriteString("; obligation " + o.Name + "\n")
	if o.Pos != "" {
		sb.WriteString("; at " + o.Pos + "\n")
	}
	if models {
		sb.WriteString("(set-option :produce-models true)\n")
	}
	sb.WriteString("(set-logic ALL)\n")
	sb.WriteString(o.vc.TextSkip(o.BodyLen, o.Goal, o.Skip))
	if o.ExpectSat {
		sb.WriteString("(assert " + o.Goal + ")\n")
	} else {
		sb.WriteString("(assert (not " + o.Goal + "))\n")
	}
	sb.WriteString("(check-sat)\n")
	return sb.String()
}

func fileSafe(s string) string {
	r := strings.NewReplacer("/", "_", " ", "_", "*", "p", "(", "", ")", "", "[", "_", "]", "_", ":", "_", "#", "-", "\"", "", "'", "", "$", "_", "<", "lt", ">", "gt", "|", "_", "&", "_", "~", "-", ",", "_", "=", "_", "!", "_", ";", "_", "\\", "_", "?", "_", "{", "_", "}", "_", "`", "", "%", "_", "+", "_", "@", "_at_")
	s = r.Replace(s)
	if len(s) > 120 {
		// keep names short but unique: two obligations must never share a file
		h := fnv.New64a()
		h.Write([]byte(s))
		s = fmt.Sprintf("%s-%x", s[:120], h.Sum64())
	}
	return s
}

// runOne runs one solver on a file. Returns status (sat/unsat/unknown/timeout/error) and output.
func runOne(ctx context.Context, cfg solverCfg, file string, timeoutS int, seed int) (string, string) {
	args := cfg.args(file, timeoutS, seed)
	cctx, cancel := context.WithTimeout(ctx, time.Duration(timeoutS+2)*time.Second)
	defer cancel()
	cmd := exec.CommandContext(cctx, args[0], args[1:]...)
	var out bytes.Buffer
	cmd.Stdout = &out
	cmd.Stderr = &out
	_ = cmd.Run()
	o := out.String()
	first := ""
	for _, ln := range strings.Split(o, "\n") {
		ln = strings.TrimSpace(ln)
		if ln == "" || strings.HasPrefix(ln, "WARNING") || strings.HasPrefix(ln, "(warning") {
			continue
		}
		first = ln
		break
	}
	switch first {
	case "sat", "unsat", "unknown":
		return first, o
	case "timeout":
		return "timeout", o
	}
	if cctx.Err() != nil {
		return "timeout", o
	}
	if strings.Contains(o, "timeout") || strings.Contains(o, "interrupted") {
		return "timeout", o
	}
	return "error", o
}

// discharge solves all obligations in parallel with a solver portfolio.
func discharge(obls []*Obligation, opt solveOpts) {
	if opt.par <= 0 {
		opt.par = 16
	}
	os.MkdirAll(opt.workDir, 0o755)
	names := opt.solvers
	if len(names) == 0 {
		names = []string{"z3-new", "z3-new-a2", "z3"}
	}
	var cfgs []solverCfg
	for _, n := range names {
		for _, c := range solvers {
			if c.name == n {
				cfgs = append(cfgs, c)
			}
		}
	}
	sem := make(chan struct{}, opt.par)
	var wg sync.WaitGroup
	for _, o := range obls {
		wg.Add(1)
		go func(o *Obligation) {
			defer wg.Done()
			sem <- struct{}{}
			defer func() { <-sem }()
			file := filepath.Join(opt.workDir, fileSafe(o.Name)+".smt2")
			os.WriteFile(file, []byte(obligationText(o, false)), 0o644)
			start := time.Now()
			// portfolio: a quick sequential try with each configuration, then (only for the few obligations
			// that are still open) a race of all configurations plus two reseeded ones under the full timeout.
			// Racing makes the verdict independent of one unlucky quantifier-instantiation order.
			short := 2
			if opt.timeoutS < short {
				short = opt.timeoutS
			}
			o.Status = "unknown"
			record := func(st, out, name string) bool {
				if st == "unsat" || st == "sat" {
					o.Status, o.Solver, o.Output = st, name, out
					return true
				}
				if st == "error" && o.Output == "" {
					o.Output = out
					o.Status = "error"
					o.Solver = name
				} else if st != "error" {
					o.Status = st
					o.Solver = name
					if o.Output == "" {
						o.Output = out
					}
				}
				return false
			}
			done := false
			for i, c := range cfgs {
				if i > 0 {
					// one short attempt with the default configuration (also all a vacuity probe gets: there only
					// a definite 'unsat' matters); everything still open goes to the race
					break
				}
				st, out := runOne(context.Background(), c, file, short, opt.seed)
				if record(st, out, c.name) {
					done = true
					break
				}
			}
			if !done && opt.timeoutS > short && !o.ExpectSat {
				type res struct{ st, out, name string }
				ctx, cancel := context.WithCancel(context.Background())
				type racer struct {
					cfg  solverCfg
					seed int
				}
				var rs []racer
				for _, c := range cfgs {
					rs = append(rs, racer{c, opt.seed})
				}
				rs = append(rs, racer{cfgs[0], opt.seed + 101}, racer{cfgs[0], opt.seed + 202})
				ch := make(chan res, len(rs))
				for _, r := range rs {
					go func(r racer) {
						st, out := runOne(ctx, r.cfg, file, opt.timeoutS, r.seed)
						ch <- res{st, out, r.cfg.name}
					}(r)
				}
				for range rs {
					r := <-ch
					if done {
						continue
					}
					if record(r.st, r.out, r.name) {
						done = true
						cancel()
					}
				}
				cancel()
			}
			o.Seconds = time.Since(start).Seconds()
		}(o)
	}
	wg.Wait()
}

// getModel reruns a sat obligation with model production and returns the raw model text.
func getModel(o *Obligation, opt solveOpts) string {
	file := filepath.Join(opt.workDir, fileSafe(o.Name)+".model.smt2")
	txt := obligationText(o, true) + "(get-model)\n"
	os.WriteFile(file, []byte(txt), 0o644)
	for _, c := range solvers {
		if c.name != o.Solver {
			continue
		}
		_, out := runOne(context.Background(), c, file, opt.timeoutS, opt.seed)
		return out
	}
	return ""
}
