package main

import (
	"fmt"
	"go/token"
	"go/types"
	"strings"

	"golang.org/x/tools/go/ssa"
)

// Lock-based reasoning for functions that opt in with `opt locks` (C18).
//
//   guarded T.f, T.g by T.mu
//
// declares that the fields f and g of an object of type T may only be read while T.mu is held (read or
// write) and only be written - field or, for maps, content - while it is write-held. Two things follow:
//   * every access is an obligation `guard:<read|write>:`source line``;
//   * the guarded data is shared: whatever was known about it is forgotten at every acquisition of the lock
//     (another goroutine may have changed it while the lock was free). This is the lock-invariant rule of
//     Owicki-Gries / concurrent separation logic, applied per function; it is what makes a check-then-act
//     across two critical sections visible to a sequential verifier.

type guardInfo struct {
	g       *Guard
	st      *types.Struct
	named   *types.Named
	lockIdx int
	rw      bool // lock is a sync.RWMutex (else sync.Mutex)
}

// guardOfField: the guard covering field idx of struct type t (pointer's element), if any.
func (tr *trans) guardOfField(t types.Type, idx int) *guardInfo {
	if tr.fc == nil || tr.fc.Opts["locks"] != "true" {
		return nil
	}
	n := namedOf(t)
	if n == nil || n.Obj().Pkg() == nil {
		return nil
	}
	s, ok := n.Underlying().(*types.Struct)
	if !ok || idx >= s.NumFields() {
		return nil
	}
	for i := range tr.prog.CS.Guards {
		g := &tr.prog.CS.Guards[i]
		if g.PkgPath != n.Obj().Pkg().Path() || g.Type != n.Obj().Name() {
			continue
		}
		covered := false
		for _, f := range g.Fields {
			if f == s.Field(idx).Name() {
				covered = true
			}
		}
		if !covered {
			continue
		}
		gi := &guardInfo{g: g, st: s, named: n, lockIdx: -1}
		for j := 0; j < s.NumFields(); j++ {
			if s.Field(j).Name() == g.Lock {
				gi.lockIdx = j
				gi.rw = strings.HasSuffix(typeKey(s.Field(j).Type()), "RWMutex")
			}
		}
		if gi.lockIdx < 0 {
			tr.errorf("guard of %s.%s: no lock field %s", g.Type, s.Field(idx).Name(), g.Lock)
			return nil
		}
		return gi
	}
	return nil
}

func (tr *trans) heldTerm(gi *guardInfo, base Term, st State) Term {
	ptr := app("fptr", base, num(int64(gi.lockIdx)))
	if gi.rw {
		tr.stateSort["ghost.rwheld"] = "(Array Int Int)"
		return sel(tr.getState(st, "ghost.rwheld"), ptr)
	}
	tr.stateSort["ghost.mheld"] = "(Array Int Bool)"
	return sel(tr.getState(st, "ghost.mheld"), ptr)
}

// guardAccess emits the obligation for one access. write: field store or map mutation.
func (tr *trans) guardAccess(gi *guardInfo, base Term, write bool, what string, st State, pos token.Pos) {
	h := tr.heldTerm(gi, base, st)
	var goal Term
	kind := "read"
	switch {
	case gi.rw && write:
		goal, kind = eq(h, "(- 1)"), "write"
	case gi.rw:
		goal = not(eq(h, "0"))
	default:
		goal = h
		if write {
			kind = "write"
		}
	}
	// objects allocated by this function are not shared yet
	fresh := app(">=", base, tr.getState(tr.entry, "$next"))
	tr.oblige("guard", fmt.Sprintf("%s:%s:`%s`", kind, what, tr.srcText(pos)), implies(tr.reach[tr.curB.Index], or(fresh, goal)), pos)
	tr.note(fmt.Sprintf("guarded-by discipline: %s.{%s} only accessed with %s.%s held (objects allocated by the function itself are exempt)", gi.g.Type, strings.Join(gi.g.Fields, ","), gi.g.Type, gi.g.Lock))
}

// guardedOrigin: if v is the content of a guarded field loaded in this function (v = *(&base.f)), the guard
// and the base object.
func (tr *trans) guardedOrigin(v ssa.Value) (*guardInfo, Term, string, bool) {
	u, ok := v.(*ssa.UnOp)
	if !ok || u.Op != token.MUL {
		return nil, "", "", false
	}
	fa, ok := u.X.(*ssa.FieldAddr)
	if !ok {
		return nil, "", "", false
	}
	pt, ok := fa.X.Type().Underlying().(*types.Pointer)
	if !ok {
		return nil, "", "", false
	}
	gi := tr.guardOfField(pt.Elem(), fa.Field)
	if gi == nil {
		return nil, "", "", false
	}
	if _, done := tr.vals[fa.X]; !done {
		return nil, "", "", false
	}
	return gi, tr.val(fa.X), gi.st.Field(fa.Field).Name(), true
}

// guardInstr is called before an instruction is translated.
func (tr *trans) guardInstr(in ssa.Instruction, st State) {
	if tr.fc == nil || tr.fc.Opts["locks"] != "true" || len(tr.prog.CS.Guards) == 0 {
		return
	}
	switch x := in.(type) {
	case *ssa.UnOp:
		if x.Op == token.MUL {
			if gi, base, f, ok := tr.guardedOrigin(x); ok {
				tr.guardAccess(gi, base, false, f, st, x.Pos())
			}
		}
	case *ssa.Store:
		if fa, ok := x.Addr.(*ssa.FieldAddr); ok {
			if pt, ok := fa.X.Type().Underlying().(*types.Pointer); ok {
				if gi := tr.guardOfField(pt.Elem(), fa.Field); gi != nil {
					tr.guardAccess(gi, tr.val(fa.X), true, gi.st.Field(fa.Field).Name(), st, x.Pos())
				}
			}
		}
	case *ssa.MapUpdate:
		if gi, base, f, ok := tr.guardedOrigin(x.Map); ok {
			tr.guardAccess(gi, base, true, f+"[]", st, x.Pos())
			for _, kf := range gi.g.Keeping {
				if kf == f && tr.fc.Opts["may_replace"] != f {
					// guarantee: an existing entry is not replaced by a different value
					mt := x.Map.Type().Underlying().(*types.Map)
					m, k, v := tr.val(x.Map), tr.val(x.Key), tr.val(x.Value)
					dom := sel(sel(tr.getState(st, tr.mapHeap(mt, "dom")), m), k)
					cur := sel(sel(tr.getState(st, tr.mapHeap(mt, "val")), m), k)
					fresh := app(">=", base, tr.getState(tr.entry, "$next"))
					tr.oblige("guard", fmt.Sprintf("keep:%s:`%s`", f, tr.srcText(x.Pos())), implies(tr.reach[tr.curB.Index], or(fresh, eq(m, "0"), not(dom), eq(cur, v))), x.Pos())
				}
			}
		}
	case *ssa.Lookup:
		if gi, base, f, ok := tr.guardedOrigin(x.X); ok {
			tr.guardAccess(gi, base, false, f+"[]", st, x.Pos())
		}
	case *ssa.Next:
		if rg, ok := x.Iter.(*ssa.Range); ok {
			if gi, base, f, ok := tr.guardedOrigin(rg.X); ok {
				tr.guardAccess(gi, base, false, "range "+f, st, rg.Pos())
			}
		}
	case *ssa.Call:
		if b, ok := x.Call.Value.(*ssa.Builtin); ok && b.Name() == "delete" && len(x.Call.Args) > 0 {
			if gi, base, f, ok := tr.guardedOrigin(x.Call.Args[0]); ok {
				tr.guardAccess(gi, base, true, "delete "+f, st, x.Pos())
			}
		}
	}
}

// acquired is called after a sync Lock/RLock call on &base.mu has been translated: the data guarded by that
// lock may have been changed by whoever held it in between.
func (tr *trans) acquired(c *ssa.CallCommon, st State) {
	if tr.fc == nil || tr.fc.Opts["locks"] != "true" || len(tr.prog.CS.Guards) == 0 || len(c.Args) == 0 {
		return
	}
	fn := c.StaticCallee()
	if fn == nil || fn.Pkg == nil || fn.Pkg.Pkg.Path() != "sync" || (fn.Name() != "Lock" && fn.Name() != "RLock") {
		return
	}
	fa, ok := c.Args[0].(*ssa.FieldAddr)
	if !ok {
		return
	}
	pt, ok := fa.X.Type().Underlying().(*types.Pointer)
	if !ok {
		return
	}
	n := namedOf(pt.Elem())
	if n == nil || n.Obj().Pkg() == nil {
		return
	}
	s, ok := n.Underlying().(*types.Struct)
	if !ok {
		return
	}
	base := tr.val(fa.X)
	for i := range tr.prog.CS.Guards {
		g := &tr.prog.CS.Guards[i]
		if g.PkgPath != n.Obj().Pkg().Path() || g.Type != n.Obj().Name() || g.Lock != s.Field(fa.Field).Name() {
			continue
		}
		for _, fname := range g.Fields {
			for j := 0; j < s.NumFields(); j++ {
				if s.Field(j).Name() != fname {
					continue
				}
				ft := s.Field(j).Type()
				h := tr.structHeap(pt.Elem(), j)
				old := sel(tr.getState(st, h), base)
				keeps := false
				for _, kf := range g.Keeping {
					if kf == fname {
						keeps = true
					}
				}
				var dom0, val0 Term
				if mt, isMap := ft.Underlying().(*types.Map); isMap && keeps {
					dom0 = sel(tr.getState(st, tr.mapHeap(mt, "dom")), old)
					val0 = sel(tr.getState(st, tr.mapHeap(mt, "val")), old)
				}
				// content of a guarded map: arbitrary as well (same map object, changed in place)
				if mt, isMap := ft.Underlying().(*types.Map); isMap {
					for _, part := range []string{"dom", "val", "len"} {
						mh := tr.mapHeap(mt, part)
						cur := tr.getState(st, mh)
						es := strings.TrimSuffix(strings.TrimPrefix(tr.stateSort[mh], "(Array Int "), ")")
						f := tr.vc.fresh("shared")
						tr.vc.declConst(f, es)
						tr.setState(st, mh, store(cur, old, f), old)
						tr.shared(mh)
					}
				}
				nv := tr.vc.fresh("shared")
				tr.vc.declConst(nv, tr.vc.sortOf(ft))
				tr.setState(st, h, store(tr.getState(st, h), base, nv), base)
				tr.shared(h)
				if inv := tr.typeInv(nv, ft, st, 0); inv != "true" {
					tr.vc.assume(inv)
				}
				if mt, isMap := ft.Underlying().(*types.Map); isMap && keeps {
					// rely: whoever held the lock in between added or removed entries but replaced none
					ks := tr.vc.sortOf(mt.Key())
					dom1 := sel(tr.getState(st, tr.mapHeap(mt, "dom")), nv)
					val1 := sel(tr.getState(st, tr.mapHeap(mt, "val")), nv)
					tr.vc.assume(fmt.Sprintf("(forall ((k %s)) (! (=> (and (select %s k) (select %s k)) (= (select %s k) (select %s k))) :pattern ((select %s k))))", ks, dom0, dom1, val1, val0, val1))
					tr.note(fmt.Sprintf("rely: entries of %s.%s are added and removed by other goroutines, never replaced (every write under contract is checked against the same rule)", g.Type, fname))
				}
			}
		}
		tr.note(fmt.Sprintf("lock-invariant rule: %s.{%s} are arbitrary after each acquisition of %s.%s (another goroutine may have changed them)", g.Type, strings.Join(g.Fields, ","), g.Type, g.Lock))
	}
}

// atAsserts: `assert at `text` [label] formula` - checked before the first effectful instruction of a block
// whose source line contains the text.
func (tr *trans) atAsserts(in ssa.Instruction, st State) {
	if tr.fc == nil || len(tr.fc.Asserts) == 0 {
		return
	}
	switch in.(type) {
	case *ssa.Store, *ssa.MapUpdate, *ssa.Call, *ssa.Send, *ssa.Go, *ssa.Defer, *ssa.Return:
	default:
		return
	}
	if !in.Pos().IsValid() {
		return
	}
	line := tr.srcText(in.Pos())
	for i, a := range tr.fc.Asserts {
		if !strings.Contains(line, a.Text) {
			continue
		}
		key := fmt.Sprintf("%d@%d", i, tr.curB.Index)
		if tr.assertDone == nil {
			tr.assertDone = map[string]bool{}
		}
		if tr.assertDone[key] {
			continue
		}
		tr.assertDone[key] = true
		tr.assertBound[i] = true
		env := tr.funcEnv(st)
		tr.currentParams(env)
		blk := tr.curB
		cur := in
		env.lookup = func(name string) (SV, bool) {
			// locals assigned earlier in this block (debug references), then the dominators
			idx := -1
			for i, bi := range blk.Instrs {
				if bi == cur {
					idx = i
				}
			}
			// a variable that lives in memory is read from memory (varAt), not from the value of an assignment
			inMemory := false
			for _, fb := range tr.fn.Blocks {
				for _, fi := range fb.Instrs {
					if al, ok := fi.(*ssa.Alloc); ok && al.Comment == name {
						if _, done := tr.vals[al]; done {
							inMemory = true
						}
					}
				}
			}
			for i := idx - 1; i >= 0 && !inMemory; i-- {
				if dr, ok := blk.Instrs[i].(*ssa.DebugRef); ok && !dr.IsAddr {
					if obj := dr.Object(); obj != nil && !isFieldObj(obj) && obj.Name() == name {
						if _, done := tr.vals[dr.X]; done {
							return env.goSV(tr.val(dr.X), dr.X.Type()), true
						}
					}
				}
			}
			return tr.varAt(blk, name, -1, st)
		}
		for _, it := range tr.fc.Items {
			if it.Kind == "let" {
				env.lets[it.Name] = it.E
			}
		}
		label := a.Label
		if label == "" {
			label = fmt.Sprint(i + 1)
		}
		tr.oblige("assert", fmt.Sprintf("[%s]@`%s`", label, a.Text), implies(tr.reach[tr.curB.Index], env.elabBool(a.E)), in.Pos())
	}
}

// shared: heaps holding lock-guarded data changed by the interference rule; the function's frame is not
// claimed for them (what other goroutines do to shared data is not this function's effect).
func (tr *trans) shared(name string) {
	if tr.sharedHeaps == nil {
		tr.sharedHeaps = map[string]bool{}
	}
	if !tr.sharedHeaps[name] {
		tr.sharedHeaps[name] = true
		tr.note("frame not claimed for " + name + ": lock-guarded shared data, arbitrary after each acquisition")
	}
}
