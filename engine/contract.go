package main

// Contract files: comment-only Go files (//go:build verif) whose "//@" lines carry contracts,
// and /verif/contracts/*.contracts files (same syntax, "//@" optional) for assumed contracts of
// external functions.

import (
	"fmt"
	"os"
	"regexp"
	"strconv"
	"strings"
)

type Item struct {
	Kind  string // requires ensures let modifies invariant decreases assume
	Label string
	Name  string // let name
	E     Expr
	Src   string
	Line  int
	// OnlyIf: a precondition labelled [name@flag] is an obligation only in callers that carry `opt flag`
	OnlyIf string
}

type LoopSpec struct {
	Ord   int
	Items []Item // invariant, decreases, let
	Line  int
}

type FuncContract struct {
	Name        string
	PkgPath     string // package the contract file belongs to (for name resolution)
	With        map[string]TypeExpr
	Pure        map[string]bool // function-typed params treated as pure functions
	Items       []Item          // requires ensures let (in order)
	Modifies    []Expr
	ModAll      bool   // modifies *
	ModExcept   []Expr // modifies * except ... (whole heaps that stay untouched)
	Stable      []Expr // stable all(T.f), ...: assumed untouched by every callee of this function
	HasModifies bool
	NoPanic     bool
	Overflow    bool
	Trusted     bool // contract assumed, body not verified
	PureFn      bool // function is a pure function of its arguments (and listed reads)
	MayPanic    bool // explicit panic instructions are allowed (not obligations)
	Loops       map[int]*LoopSpec
	Props       []string
	Opts        map[string]string
	File        string
	Line        int
	External    bool // from a .contracts file (assumed, trusted)
	// Implementing: template contract "Type.*", expanded to every method of this interface
	Implementing string
	Asserts      []AtAssert
}

type SpecFunc struct {
	Name    string
	Params  []Binder
	Result  TypeExpr
	Body    Expr // nil = uninterpreted
	Rec     bool
	PkgPath string
	Line    int
	File    string
}

type Axiom struct {
	Name    string
	E       Expr
	PkgPath string
	Props   []string
	File    string
	Line    int
}

type GhostVar struct {
	Name    string
	T       TypeExpr
	PkgPath string
	Stable  bool
}

type Lemma struct {
	Name    string
	E       Expr
	Uses    []string // axioms/specfuncs are always available; "uses" names contracts (func) whose ensures are assumed
	PkgPath string
	Props   []string
	File    string
	Line    int
}

// Guard: fields of a struct that may only be accessed while the struct's lock field is held
// (`guarded T.f, T.g by T.mu`).
type Guard struct {
	PkgPath string
	Type    string
	Fields  []string
	Lock    string
	// Keeping: guarded map fields whose entries are never replaced by a different value (rely/guarantee):
	// other goroutines may add and remove entries, but an entry present before and after holds the same value.
	Keeping []string
}

// AtAssert: an assertion at the first effectful instruction of a source line containing Text.
type AtAssert struct {
	Text  string
	Label string
	E     Expr
	Src   string
}

type Contracts struct {
	Guards    []Guard
	Funcs     map[string]*FuncContract // key: pkgpath + "." + name
	SpecFuncs map[string]*SpecFunc     // key: name (global namespace)
	Axioms    []*Axiom
	Ghosts    map[string]*GhostVar
	Lemmas    []*Lemma
	Dispatch  []Dispatch
	OnAlloc   []OnAlloc
	Errors    []string
}

// OnAlloc: fact assumed about a freshly allocated zero value of a type (p is bound to the new pointer)
type OnAlloc struct {
	Type    TypeExpr
	E       Expr
	PkgPath string
}

// Dispatch: interface method I.M invoked on dynamic type T is the concrete method T.M
// (axiom generated from T.M's pure contract)
type Dispatch struct {
	Iface, Method, Impl string
	PkgPath             string
}

func NewContracts() *Contracts {
	return &Contracts{Funcs: map[string]*FuncContract{}, SpecFuncs: map[string]*SpecFunc{}, Ghosts: map[string]*GhostVar{}}
}

var keywords = map[string]bool{
	"func": true, "spec": true, "axiom": true, "ghost": true, "lemma": true, "package": true,
	"requires": true, "ensures": true, "let": true, "modifies": true, "nopanic": true, "overflow": true,
	"loop": true, "invariant": true, "decreases": true, "trusted": true, "props": true, "pure": true,
	"purefn": true, "maypanic": true, "opt": true, "dispatch": true, "assume": true, "uses": true, "onalloc": true, "recvinv": true, "check": true, "defines": true, "stable": true, "guarded": true, "assert": true,
}

type rawItem struct {
	kw   string
	text string
	line int
}

var labelRe = regexp.MustCompile(`^\[([A-Za-z0-9_\-.:@]+)\]\s*`)

func (cs *Contracts) LoadFile(path string, pkgPath string, external bool) {
	data, err := os.ReadFile(path)
	if err != nil {
		cs.Errors = append(cs.Errors, err.Error())
		return
	}
	var items []rawItem
	for i, ln := range strings.Split(string(data), "\n") {
		t := strings.TrimSpace(ln)
		if strings.HasPrefix(t, "//@") {
			t = strings.TrimSpace(t[3:])
		} else if !external {
			continue
		}
		// strip trailing comment " // ..."
		if j := strings.Index(t, " // "); j >= 0 {
			t = strings.TrimSpace(t[:j])
		}
		if strings.HasPrefix(t, "//") || strings.HasPrefix(t, "#") {
			continue
		}
		if t == "" {
			continue
		}
		w := t
		if j := strings.IndexAny(t, " \t"); j >= 0 {
			w = t[:j]
		}
		if keywords[w] {
			items = append(items, rawItem{w, strings.TrimSpace(t[len(w):]), i + 1})
		} else if len(items) > 0 {
			items[len(items)-1].text += " " + t
		} else {
			cs.Errors = append(cs.Errors, fmt.Sprintf("%s:%d: stray contract text", path, i+1))
		}
	}
	fail := func(it rawItem, f string, a ...any) {
		cs.Errors = append(cs.Errors, fmt.Sprintf("%s:%d: %s", path, it.line, fmt.Sprintf(f, a...)))
	}
	var cur []*FuncContract // current group of function contracts sharing a body
	var curLoop *LoopSpec
	var curLemma *Lemma
	var curAxiom *Axiom
	bodyStarted := false
	parse := func(it rawItem, s string) Expr {
		e, err := ParseExpr(s)
		if err != nil {
			fail(it, "%v", err)
			return &EBool{true}
		}
		return e
	}
	for _, it := range items {
		switch it.kw {
		case "package":
			pkgPath = it.text
			cur = nil
		case "func":
			if bodyStarted || cur == nil {
				cur = nil
				bodyStarted = false
			}
			curLoop, curLemma, curAxiom = nil, nil, nil
			fc := &FuncContract{PkgPath: pkgPath, With: map[string]TypeExpr{}, Pure: map[string]bool{}, Loops: map[int]*LoopSpec{}, Opts: map[string]string{}, File: path, Line: it.line, External: external}
			txt := it.text
			if j := strings.Index(txt, " with "); j >= 0 {
				for _, b := range strings.Split(txt[j+6:], ",") {
					kv := strings.SplitN(b, "=", 2)
					if len(kv) != 2 {
						fail(it, "bad with binding %q", b)
						continue
					}
					ps := &parser{}
					toks, err := lex(strings.TrimSpace(kv[1]))
					if err != nil {
						fail(it, "%v", err)
						continue
					}
					ps.toks = toks
					func() {
						defer func() {
							if r := recover(); r != nil {
								fail(it, "bad type %q", kv[1])
							}
						}()
						fc.With[strings.TrimSpace(kv[0])] = ps.typeExpr()
					}()
				}
				txt = txt[:j]
			}
			if j := strings.Index(txt, " implementing "); j >= 0 {
				fc.Implementing = strings.TrimSpace(txt[j+14:])
				txt = txt[:j]
			}
			fc.Name = strings.TrimSpace(txt)
			key := pkgPath + "." + fc.Name
			if _, dup := cs.Funcs[key]; dup {
				fail(it, "duplicate contract for %s", key)
			}
			cs.Funcs[key] = fc
			cur = append(cur, fc)
		case "spec":
			cur, curLoop, curLemma, curAxiom = nil, nil, nil, nil
			sf := cs.parseSpecFunc(it, pkgPath, fail)
			if sf != nil {
				sf.File = path
				if _, dup := cs.SpecFuncs[sf.Name]; dup {
					fail(it, "duplicate spec func %s", sf.Name)
				}
				cs.SpecFuncs[sf.Name] = sf
			}
		case "axiom", "lemma":
			cur, curLoop, curLemma, curAxiom = nil, nil, nil, nil
			j := strings.Index(it.text, ":")
			if j < 0 {
				fail(it, "expected 'name: formula'")
				continue
			}
			name := strings.TrimSpace(it.text[:j])
			e := parse(it, it.text[j+1:])
			if it.kw == "axiom" {
				curAxiom = &Axiom{Name: name, E: e, PkgPath: pkgPath, File: path, Line: it.line}
				cs.Axioms = append(cs.Axioms, curAxiom)
			} else {
				curLemma = &Lemma{Name: name, E: e, PkgPath: pkgPath, File: path, Line: it.line}
				cs.Lemmas = append(cs.Lemmas, curLemma)
			}
		case "guarded":
			// guarded T.f, T.g by T.mu
			cur, curLoop, curLemma, curAxiom = nil, nil, nil, nil
			parts := strings.SplitN(it.text, " by ", 2)
			if len(parts) != 2 {
				fail(it, "expected 'guarded T.f, T.g by T.mu'")
				continue
			}
			g := Guard{PkgPath: pkgPath}
			if kp := strings.SplitN(parts[1], " keeping ", 2); len(kp) == 2 {
				parts[1] = kp[0]
				for _, f := range strings.Split(kp[1], ",") {
					tf := strings.SplitN(strings.TrimSpace(f), ".", 2)
					if len(tf) == 2 {
						g.Keeping = append(g.Keeping, tf[1])
					}
				}
			}
			lk := strings.SplitN(strings.TrimSpace(parts[1]), ".", 2)
			if len(lk) != 2 {
				fail(it, "expected lock as T.mu")
				continue
			}
			g.Type, g.Lock = lk[0], lk[1]
			for _, f := range strings.Split(parts[0], ",") {
				tf := strings.SplitN(strings.TrimSpace(f), ".", 2)
				if len(tf) != 2 || tf[0] != g.Type {
					fail(it, "guarded field %q is not a field of %s", f, g.Type)
					continue
				}
				g.Fields = append(g.Fields, tf[1])
			}
			cs.Guards = append(cs.Guards, g)
		case "ghost":
			cur, curLoop, curLemma, curAxiom = nil, nil, nil, nil
			f := strings.Fields(it.text)
			stable := false
			if len(f) >= 1 && f[0] == "stablevar" {
				// a ghost variable that uncontracted callees are assumed to leave as they found it
				stable = true
				f[0] = "var"
			}
			if len(f) < 3 || f[0] != "var" {
				fail(it, "expected 'ghost var name type'")
				continue
			}
			ps := &parser{}
			toks, err := lex(strings.Join(f[2:], " "))
			if err != nil {
				fail(it, "%v", err)
				continue
			}
			ps.toks = toks
			cs.Ghosts[f[1]] = &GhostVar{Name: f[1], T: ps.typeExpr(), PkgPath: pkgPath, Stable: stable}
		case "onalloc":
			cur, curLoop, curLemma, curAxiom = nil, nil, nil, nil
			j := strings.Index(it.text, ":")
			if j < 0 {
				fail(it, "expected 'onalloc Type: formula'")
				continue
			}
			toks, err := lex(strings.TrimSpace(it.text[:j]))
			if err != nil {
				fail(it, "%v", err)
				continue
			}
			ps := &parser{toks: toks}
			cs.OnAlloc = append(cs.OnAlloc, OnAlloc{Type: ps.typeExpr(), E: parse(it, it.text[j+1:]), PkgPath: pkgPath})
		case "dispatch":
			// dispatch Iface.Method on ImplType
			f := strings.Fields(it.text)
			if len(f) != 3 || f[1] != "on" {
				fail(it, "expected 'dispatch I.M on T'")
				continue
			}
			k := strings.LastIndex(f[0], ".")
			cs.Dispatch = append(cs.Dispatch, Dispatch{Iface: f[0][:k], Method: f[0][k+1:], Impl: f[2], PkgPath: pkgPath})
		case "uses":
			if curLemma != nil {
				curLemma.Uses = append(curLemma.Uses, strings.Fields(strings.ReplaceAll(it.text, ",", " "))...)
			} else {
				fail(it, "uses outside lemma")
			}
		case "props":
			ps := strings.Fields(strings.ReplaceAll(it.text, ",", " "))
			switch {
			case curLemma != nil:
				curLemma.Props = append(curLemma.Props, ps...)
			case curAxiom != nil:
				curAxiom.Props = append(curAxiom.Props, ps...)
			case cur != nil:
				bodyStarted = true
				for _, fc := range cur {
					fc.Props = append(fc.Props, ps...)
				}
			default:
				fail(it, "props outside of a contract")
			}
		default:
			if cur == nil {
				fail(it, "clause %q outside of a func contract", it.kw)
				continue
			}
			bodyStarted = true
			txt := it.text
			label := ""
			if m := labelRe.FindStringSubmatch(txt); m != nil && (it.kw == "requires" || it.kw == "ensures" || it.kw == "invariant" || it.kw == "assume" || it.kw == "check" || it.kw == "defines") {
				label = m[1]
				txt = txt[len(m[0]):]
			}
			onlyIf := ""
			if j := strings.Index(label, "@"); j >= 0 {
				label, onlyIf = label[:j], label[j+1:]
			}
			for _, fc := range cur {
				switch it.kw {
				case "recvinv":
					// recvinv <channel variable>: <formula over elem>
					j := strings.Index(txt, ":")
					if j < 0 {
						fail(it, "expected 'recvinv chan: formula'")
						continue
					}
					fc.Items = append(fc.Items, Item{Kind: "recvinv", Name: strings.TrimSpace(txt[:j]), E: parse(it, txt[j+1:]), Src: txt, Line: it.line})
				case "assert":
					// assert at `source text` [label] formula
					t := strings.TrimSpace(txt)
					if !strings.HasPrefix(t, "at `") {
						fail(it, "expected: assert at `source text` [label] formula")
						continue
					}
					t = t[4:]
					j := strings.Index(t, "`")
					if j < 0 {
						fail(it, "unterminated source text in assert")
						continue
					}
					at := t[:j]
					rest := strings.TrimSpace(t[j+1:])
					lab := ""
					if m := labelRe.FindStringSubmatch(rest); m != nil {
						lab, rest = m[1], rest[len(m[0]):]
					}
					fc.Asserts = append(fc.Asserts, AtAssert{Text: at, Label: lab, E: parse(it, rest), Src: rest})
				case "check":
					fc.Items = append(fc.Items, Item{Kind: "check", Label: label, E: parse(it, txt), Src: txt, Line: it.line})
				case "stable":
					// heaps / ghost variables that nothing called from this function modifies (assumption, listed)
					for _, part := range splitTop(txt) {
						fc.Stable = append(fc.Stable, parse(it, part))
					}
				case "defines":
					// a clause that defines ghost state: assumed by callers, not checked against the body
					fc.Items = append(fc.Items, Item{Kind: "defines", Label: label, E: parse(it, txt), Src: txt, Line: it.line})
				case "requires", "ensures", "assume":
					if curLoop != nil && it.kw == "assume" {
						fc.Loops[curLoop.Ord].Items = append(fc.Loops[curLoop.Ord].Items, Item{Kind: it.kw, Label: label, E: parse(it, txt), Src: txt, Line: it.line})
					} else {
						fc.Items = append(fc.Items, Item{Kind: it.kw, Label: label, E: parse(it, txt), Src: txt, Line: it.line, OnlyIf: onlyIf})
					}
				case "let":
					j := strings.Index(txt, "=")
					if j < 0 {
						fail(it, "let without =")
						continue
					}
					item := Item{Kind: "let", Name: strings.TrimSpace(txt[:j]), E: parse(it, txt[j+1:]), Src: txt, Line: it.line}
					if curLoop != nil {
						fc.Loops[curLoop.Ord].Items = append(fc.Loops[curLoop.Ord].Items, item)
					} else {
						fc.Items = append(fc.Items, item)
					}
				case "modifies":
					fc.HasModifies = true
					if strings.TrimSpace(txt) == "*" {
						fc.ModAll = true
						continue
					}
					if strings.HasPrefix(strings.TrimSpace(txt), "* except ") {
						fc.ModAll = true
						for _, part := range splitTop(strings.TrimPrefix(strings.TrimSpace(txt), "* except ")) {
							fc.ModExcept = append(fc.ModExcept, parse(it, part))
						}
						continue
					}
					for _, part := range splitTop(txt) {
						fc.Modifies = append(fc.Modifies, parse(it, part))
					}
				case "pure":
					for _, n := range strings.Fields(strings.ReplaceAll(txt, ",", " ")) {
						fc.Pure[n] = true
					}
				case "nopanic":
					fc.NoPanic = true
					if strings.TrimSpace(txt) != "" {
						fc.Opts["nopanic_kinds"] = strings.TrimSpace(txt)
					}
				case "overflow":
					fc.Overflow = true
				case "trusted":
					fc.Trusted = true
				case "purefn":
					fc.PureFn = true
				case "maypanic":
					fc.MayPanic = true
				case "opt":
					kv := strings.SplitN(txt, "=", 2)
					if len(kv) == 2 {
						fc.Opts[strings.TrimSpace(kv[0])] = strings.TrimSpace(kv[1])
					} else {
						fc.Opts[strings.TrimSpace(txt)] = "true"
					}
				case "loop":
					n, err := strconv.Atoi(strings.TrimSpace(txt))
					if err != nil {
						fail(it, "loop needs an ordinal")
						continue
					}
					fc.Loops[n] = &LoopSpec{Ord: n, Line: it.line}
				case "invariant", "decreases":
					if curLoop == nil && it.kw != "loop" {
						fail(it, "%s outside of loop", it.kw)
						continue
					}
					fc.Loops[curLoop.Ord].Items = append(fc.Loops[curLoop.Ord].Items, Item{Kind: it.kw, Label: label, E: parse(it, txt), Src: txt, Line: it.line})
				}
			}
			if it.kw == "loop" {
				n, _ := strconv.Atoi(strings.TrimSpace(txt))
				curLoop = &LoopSpec{Ord: n}
			}
		}
	}
}

// splitTop splits on commas not nested in brackets.
func splitTop(s string) []string {
	var out []string
	depth := 0
	st := 0
	for i, c := range s {
		switch c {
		case '(', '[', '{':
			depth++
		case ')', ']', '}':
			depth--
		case ',':
			if depth == 0 {
				out = append(out, strings.TrimSpace(s[st:i]))
				st = i + 1
			}
		}
	}
	if strings.TrimSpace(s[st:]) != "" {
		out = append(out, strings.TrimSpace(s[st:]))
	}
	return out
}

var specFuncRe = regexp.MustCompile(`^func\s+([A-Za-z_][A-Za-z0-9_]*)\s*\((.*?)\)\s*([^={]*?)\s*(?:=\s*(.*))?$`)

func (cs *Contracts) parseSpecFunc(it rawItem, pkgPath string, fail func(rawItem, string, ...any)) *SpecFunc {
	m := specFuncRe.FindStringSubmatch(it.text)
	if m == nil {
		fail(it, "bad spec func syntax: %q", it.text)
		return nil
	}
	sf := &SpecFunc{Name: m[1], PkgPath: pkgPath, Line: it.line}
	parseT := func(s string) (TypeExpr, bool) {
		toks, err := lex(s)
		if err != nil {
			fail(it, "%v", err)
			return TypeExpr{}, false
		}
		ps := &parser{toks: toks}
		ok := true
		var t TypeExpr
		func() {
			defer func() {
				if r := recover(); r != nil {
					ok = false
					fail(it, "bad type %q", s)
				}
			}()
			t = ps.typeExpr()
		}()
		return t, ok
	}
	if strings.TrimSpace(m[2]) != "" {
		for _, p := range splitTop(m[2]) {
			f := strings.SplitN(strings.TrimSpace(p), " ", 2)
			if len(f) != 2 {
				fail(it, "bad parameter %q", p)
				return nil
			}
			t, ok := parseT(f[1])
			if !ok {
				return nil
			}
			sf.Params = append(sf.Params, Binder{f[0], t})
		}
	}
	rt, ok := parseT(strings.TrimSpace(m[3]))
	if !ok {
		return nil
	}
	sf.Result = rt
	if m[4] != "" {
		e, err := ParseExpr(m[4])
		if err != nil {
			fail(it, "%v", err)
			return nil
		}
		sf.Body = e
		sf.Rec = mentionsCall(e, sf.Name)
	}
	return sf
}

func mentionsCall(e Expr, name string) bool {
	found := false
	var walk func(Expr)
	walk = func(e Expr) {
		if e == nil || found {
			return
		}
		switch x := e.(type) {
		case *ECall:
			if id, ok := x.Fn.(*EIdent); ok && id.Name == name {
				found = true
			}
			walk(x.Fn)
			for _, a := range x.Args {
				walk(a)
			}
		case *EUnary:
			walk(x.X)
		case *EBinary:
			walk(x.X)
			walk(x.Y)
		case *ECond:
			walk(x.C)
			walk(x.A)
			walk(x.B)
		case *EQuant:
			walk(x.Body)
		case *ESel:
			walk(x.X)
		case *EIndex:
			walk(x.X)
			walk(x.I)
		case *ESlice:
			walk(x.X)
			walk(x.Lo)
			walk(x.Hi)
		case *EOld:
			walk(x.X)
		case *ETypeOf:
			walk(x.X)
		case *EAssert:
			walk(x.X)
		}
	}
	walk(e)
	return found
}
