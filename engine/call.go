package main

import (
	"fmt"
	"go/token"
	"go/types"
	"strconv"
	"strings"

	"golang.org/x/tools/go/ssa"
)

func (f *fnRef) resSort() Sort { return f.rsort }

// ---------------------------------------------------------------- function symbols used in specifications

func (tr *trans) declSym(sym string, params []Sort, res Sort) {
	tr.vc.declFun(sym, fmt.Sprintf("(declare-fun %s (%s) %s)", sym, strings.Join(params, " "), res))
}

func (tr *trans) specFuncRef(sf *SpecFunc) *fnRef {
	if fr, ok := tr.specRefs["sf."+sf.Name]; ok {
		return fr
	}
	defer tr.needAxioms(sf.PkgPath)
	env := &Env{tr: tr, vc: tr.vc, pkgPath: sf.PkgPath, st: State{}, old: State{}, vars: map[string]SV{}, lets: map[string]Expr{}, errs: &tr.errs}
	if tr.fc != nil {
		env.with = tr.fc.With
	}
	fr := &fnRef{sym: q("sf." + sf.Name)}
	tr.specRefs["sf."+sf.Name] = fr
	var ps []Sort
	var decls []string
	for _, p := range sf.Params {
		ty, srt, _ := env.resolveType(p.T)
		fr.params = append(fr.params, ty)
		ps = append(ps, srt)
		pn := q("a." + p.Name)
		decls = append(decls, "("+pn+" "+srt+")")
		env.vars[p.Name] = SV{t: pn, ty: ty, sort: srt}
	}
	rty, rsrt, rkind := env.resolveType(sf.Result)
	fr.results = []types.Type{rty}
	fr.rsort = rsrt
	fr.rkind = rkind
	if rkind == "" {
		fr.rsort = ""
	}
	if rty == nil {
		fr.rsort = rsrt
	}
	if sf.Body == nil {
		tr.declSym(fr.sym, ps, rsrt)
		return fr
	}
	if sf.Rec {
		tr.declSym(fr.sym, ps, rsrt)
		body := env.elab(sf.Body)
		var args []string
		for _, p := range sf.Params {
			args = append(args, q("a."+p.Name))
		}
		call := app(fr.sym, args...)
		tr.vc.funs = append(tr.vc.funs, fmt.Sprintf("(assert (forall (%s) (! (= %s %s) :pattern (%s))))", strings.Join(decls, " "), call, body.t, call))
		return fr
	}
	// make sure nested spec functions are declared first
	body := env.elab(sf.Body)
	if len(decls) == 0 {
		tr.vc.declFun(fr.sym, fmt.Sprintf("(define-fun %s () %s %s)", fr.sym, rsrt, body.t))
	} else {
		tr.vc.declFun(fr.sym, fmt.Sprintf("(define-fun %s (%s) %s %s)", fr.sym, strings.Join(decls, " "), rsrt, body.t))
	}
	return fr
}

func (tr *trans) pureParamRef(p interface {
	Name() string
	Type() types.Type
}) *fnRef {
	ft := p.Type()
	if pt, ok := ft.Underlying().(*types.Pointer); ok {
		ft = pt.Elem() // captured variable: pointer to the function-typed cell
	}
	sig := ft.Underlying().(*types.Signature)
	fr := &fnRef{sym: q("pf." + p.Name())}
	var ps []Sort
	for i := 0; i < sig.Params().Len(); i++ {
		fr.params = append(fr.params, sig.Params().At(i).Type())
		ps = append(ps, tr.vc.sortOf(sig.Params().At(i).Type()))
	}
	for i := 0; i < sig.Results().Len(); i++ {
		fr.results = append(fr.results, sig.Results().At(i).Type())
		sym := fr.sym
		if i > 0 {
			sym = q(fmt.Sprintf("pf.%s.%d", p.Name(), i))
		}
		tr.declSym(sym, ps, tr.vc.sortOf(sig.Results().At(i).Type()))
	}
	tr.note("function-typed parameter " + p.Name() + " of " + tr.key + " is a side-effect-free deterministic function (declared 'pure' in the contract)")
	return fr
}

func (tr *trans) contractFor(fn *ssa.Function) *FuncContract {
	return tr.prog.CS.Funcs[funcKey(fn)]
}

func (tr *trans) contractForObj(o *types.Func) (*FuncContract, string) {
	key := objKey(o)
	return tr.prog.CS.Funcs[key], key
}

func objKey(o *types.Func) string {
	o = o.Origin()
	sig := o.Type().(*types.Signature)
	pkgPath := ""
	if o.Pkg() != nil {
		pkgPath = o.Pkg().Path()
	}
	if recv := sig.Recv(); recv != nil {
		rt := recv.Type()
		ptr := false
		if p, ok := rt.(*types.Pointer); ok {
			rt = p.Elem()
			ptr = true
		}
		name := ""
		switch n := rt.(type) {
		case *types.Named:
			name = n.Obj().Name()
			if n.Obj().Pkg() != nil {
				pkgPath = n.Obj().Pkg().Path()
			}
		case *types.Alias:
			name = n.Obj().Name()
		default:
			return pkgPath + ".?." + o.Name()
		}
		if pkgPath == "" {
			return name + "." + o.Name()
		}
		if ptr {
			return pkgPath + ".(*" + name + ")." + o.Name()
		}
		return pkgPath + "." + name + "." + o.Name()
	}
	return pkgPath + "." + o.Name()
}

// goFuncRef: a Go function used as a pure function in specifications (needs a purefn contract).
func (tr *trans) goFuncRef(o *types.Func) *fnRef {
	fc, key := tr.contractForObj(o)
	if fc == nil || !fc.PureFn {
		return nil
	}
	if fr, ok := tr.specRefs["gf."+key]; ok {
		return fr
	}
	sig := o.Type().(*types.Signature)
	fr := &fnRef{sym: q("gf." + key)}
	tr.specRefs["gf."+key] = fr
	var ps []Sort
	var names []string
	var ptypes []types.Type
	if r := sig.Recv(); r != nil {
		ps = append(ps, tr.vc.sortOf(r.Type()))
		names = append(names, r.Name())
		ptypes = append(ptypes, r.Type())
	}
	for i := 0; i < sig.Params().Len(); i++ {
		fr.params = append(fr.params, sig.Params().At(i).Type())
		ps = append(ps, tr.vc.sortOf(sig.Params().At(i).Type()))
		names = append(names, sig.Params().At(i).Name())
		ptypes = append(ptypes, sig.Params().At(i).Type())
	}
	var rsyms []string
	for i := 0; i < sig.Results().Len(); i++ {
		fr.results = append(fr.results, sig.Results().At(i).Type())
		sym := fr.sym
		if i > 0 {
			sym = q(fmt.Sprintf("gf.%s.%d", key, i))
		}
		rsyms = append(rsyms, sym)
		tr.declSym(sym, ps, tr.vc.sortOf(sig.Results().At(i).Type()))
	}
	// the ensures clauses of a purefn contract are global axioms over the symbol
	env := &Env{tr: tr, vc: tr.vc, pkgPath: fc.PkgPath, st: State{}, old: State{}, vars: map[string]SV{}, with: fc.With, lets: map[string]Expr{}, errs: &tr.errs}
	var decls []string
	var args []Term
	for i, n := range names {
		an := q(fmt.Sprintf("a%d.%s", i, n))
		decls = append(decls, "("+an+" "+ps[i]+")")
		args = append(args, an)
		if n != "" && n != "_" {
			env.vars[n] = env.goSV(an, ptypes[i])
			env.vars[n+"0"] = env.vars[n]
		}
	}
	rn := resultNamesOf(sig)
	for i, sym := range rsyms {
		sv := env.goSV(app(sym, args...), sig.Results().At(i).Type())
		env.vars[rn[i]] = sv
		env.vars[fmt.Sprintf("result%d", i)] = sv
		if i == 0 {
			env.vars["result"] = sv
		}
		if i == len(rsyms)-1 && types.Identical(sig.Results().At(i).Type(), types.Universe.Lookup("error").Type()) {
			if _, taken := env.vars["err"]; !taken {
				env.vars["err"] = sv
			}
		}
	}
	before := tr.heapReads
	var pre []Term
	for _, it := range fc.Items {
		switch it.Kind {
		case "let":
			env.lets[it.Name] = it.E
		case "requires":
			pre = append(pre, env.elabBool(it.E))
		case "ensures":
			body := implies(and(pre...), env.elabBool(it.E))
			if len(decls) == 0 {
				tr.vc.funs = append(tr.vc.funs, "(assert "+body+")")
			} else {
				tr.vc.funs = append(tr.vc.funs, fmt.Sprintf("(assert (forall (%s) (! %s :pattern (%s))))", strings.Join(decls, " "), body, app(rsyms[0], args...)))
			}
		}
	}
	if tr.heapReads != before {
		tr.errorf("purefn contract of %s reads the heap", key)
	}
	if fc.External || fc.Trusted {
		tr.note("assumed contract of " + key + " (trusted/external)")
	}
	return fr
}

func resultNamesOf(sig *types.Signature) []string {
	var names []string
	for i := 0; i < sig.Results().Len(); i++ {
		name := sig.Results().At(i).Name()
		if name == "" || name == "_" {
			if i == 0 {
				name = "result"
			} else {
				name = fmt.Sprintf("result%d", i)
			}
		}
		names = append(names, name)
	}
	return names
}

func ifaceKey(recvT types.Type, m *types.Func) string {
	// declaring interface of the method
	sig := m.Type().(*types.Signature)
	if r := sig.Recv(); r != nil {
		if n, ok := r.Type().(*types.Named); ok {
			if n.Obj().Pkg() == nil {
				return n.Obj().Name() + "." + m.Name()
			}
			return n.Obj().Pkg().Path() + "." + n.Obj().Name() + "." + m.Name()
		}
	}
	if n, ok := recvT.(*types.Named); ok {
		if n.Obj().Pkg() == nil {
			return n.Obj().Name() + "." + m.Name()
		}
		return n.Obj().Pkg().Path() + "." + n.Obj().Name() + "." + m.Name()
	}
	return "?." + m.Name()
}

func (tr *trans) ifaceMethodRef(recvT types.Type, m *types.Func) *fnRef {
	key := ifaceKey(recvT, m)
	if fr, ok := tr.specRefs["im."+key]; ok {
		return fr
	}
	sig := m.Type().(*types.Signature)
	fr := &fnRef{sym: q("im." + key)}
	tr.specRefs["im."+key] = fr
	ps := []Sort{"Iface"}
	for i := 0; i < sig.Params().Len(); i++ {
		fr.params = append(fr.params, sig.Params().At(i).Type())
		ps = append(ps, tr.vc.sortOf(sig.Params().At(i).Type()))
	}
	for i := 0; i < sig.Results().Len(); i++ {
		fr.results = append(fr.results, sig.Results().At(i).Type())
		sym := fr.sym
		if i > 0 {
			sym = q(fmt.Sprintf("im.%s.%d", key, i))
		}
		tr.declSym(sym, ps, tr.vc.sortOf(sig.Results().At(i).Type()))
	}
	tr.dispatchAxioms(key, fr, sig)
	return fr
}

// dispatchAxioms links the interface-method symbol with the purefn symbols of declared implementations.
func (tr *trans) dispatchAxioms(key string, fr *fnRef, sig *types.Signature) {
	for _, d := range tr.prog.CS.Dispatch {
		env := &Env{tr: tr, vc: tr.vc, pkgPath: d.PkgPath, st: State{}, old: State{}, vars: map[string]SV{}, lets: map[string]Expr{}, errs: &tr.errs}
		it, _, _ := env.resolveType(TypeExpr{Kind: "name", Name: d.Iface})
		if it == nil {
			continue
		}
		n, ok := it.(*types.Named)
		if !ok || n.Obj().Pkg() == nil || n.Obj().Pkg().Path()+"."+n.Obj().Name()+"."+d.Method != key {
			continue
		}
		impl := d.Impl
		ptr := strings.HasPrefix(impl, "*")
		impl = strings.TrimPrefix(impl, "*")
		t, _, _ := env.resolveType(TypeExpr{Kind: "name", Name: impl})
		if t == nil {
			continue
		}
		var dyn types.Type = t
		if ptr {
			dyn = types.NewPointer(t)
		}
		obj, _, _ := types.LookupFieldOrMethod(dyn, true, nil, d.Method)
		if obj == nil {
			if nn := namedOf(dyn); nn != nil {
				obj, _, _ = types.LookupFieldOrMethod(dyn, true, nn.Obj().Pkg(), d.Method)
			}
		}
		mf, ok := obj.(*types.Func)
		if !ok {
			tr.errorf("dispatch: no method %s on %s", d.Method, d.Impl)
			continue
		}
		gf := tr.goFuncRef(mf)
		if gf == nil {
			tr.errorf("dispatch: %s.%s has no purefn contract", d.Impl, d.Method)
			continue
		}
		// receiver of the concrete method may be value while the dynamic type is a pointer: not supported
		msig := mf.Type().(*types.Signature)
		if !types.Identical(msig.Recv().Type(), dyn) {
			tr.errorf("dispatch: receiver type of %s.%s differs from dynamic type", d.Impl, d.Method)
			continue
		}
		var decls []string
		var args []Term
		for i := 0; i < sig.Params().Len(); i++ {
			an := q(fmt.Sprintf("d%d", i))
			decls = append(decls, "("+an+" "+tr.vc.sortOf(sig.Params().At(i).Type())+")")
			args = append(args, an)
		}
		recv := tr.vc.unbox(dyn, "(ival i)")
		lhs := app(fr.sym, append([]Term{"i"}, args...)...)
		rhs := app(gf.sym, append([]Term{recv}, args...)...)
		tr.vc.funs = append(tr.vc.funs, fmt.Sprintf("(assert (forall ((i Iface) %s) (! (=> (= (itag i) %d) (= %s %s)) :pattern (%s))))", strings.Join(decls, " "), tr.vc.tagOf(dyn), lhs, rhs, lhs))
	}
}

// lastCall: ghost record of the last call of a pure function parameter.
func (tr *trans) lastCall(env *Env, name string, idx int) SV {
	fr, ok := tr.pure[name]
	if !ok {
		return env.fail("last(%s): not a pure function parameter", name)
	}
	if idx < 0 {
		sn := "call." + name + ".res0"
		tr.stateSort[sn] = tr.vc.sortOf(fr.results[0])
		return env.goSV(tr.getState(env.st, sn), fr.results[0])
	}
	if idx >= len(fr.params) {
		return env.fail("last(%s,%d): index out of range", name, idx)
	}
	sn := fmt.Sprintf("call.%s.arg%d", name, idx)
	tr.stateSort[sn] = tr.vc.sortOf(fr.params[idx])
	return env.goSV(tr.getState(env.st, sn), fr.params[idx])
}

func (tr *trans) lastRes(env *Env, name string, idx int) SV {
	fr, ok := tr.pure[name]
	if !ok || idx >= len(fr.results) {
		return env.fail("lastres(%s,%d): not a pure function parameter / bad index", name, idx)
	}
	sn := fmt.Sprintf("call.%s.res%d", name, idx)
	tr.stateSort[sn] = tr.vc.sortOf(fr.results[idx])
	return env.goSV(tr.getState(env.st, sn), fr.results[idx])
}

// ---------------------------------------------------------------- calls

func (tr *trans) setResults(v ssa.Value, ts []Term) {
	if v == nil {
		return
	}
	if tup, ok := v.Type().(*types.Tuple); ok {
		if tup.Len() == 0 {
			return
		}
		var named []Term
		for i, t := range ts {
			n := q(fmt.Sprintf("%s.%d", v.Name(), i))
			tr.vc.define(n, tr.vc.sortOf(tup.At(i).Type()), t)
			named = append(named, n)
		}
		tr.tuples[v] = named
		return
	}
	if len(ts) == 1 {
		tr.setVal(v, ts[0])
	}
}

func (tr *trans) freshResults(prefix string, sig *types.Signature, st State) []Term {
	var ts []Term
	for i := 0; i < sig.Results().Len(); i++ {
		t := sig.Results().At(i).Type()
		n := tr.vc.fresh(fmt.Sprintf("%s.r%d", prefix, i))
		tr.vc.declConst(n, tr.vc.sortOf(t))
		if inv := tr.typeInv(n, t, st, 0); inv != "true" {
			tr.vc.assume(inv)
		}
		ts = append(ts, n)
	}
	return ts
}

func (tr *trans) call(v ssa.Value, c *ssa.CallCommon, st State) {
	pos := c.Pos()
	if v != nil && !pos.IsValid() {
		pos = v.Pos()
	}
	reach := tr.reach[tr.curB.Index]
	if b, ok := c.Value.(*ssa.Builtin); ok {
		tr.builtin(v, b, c, st, pos)
		return
	}
	var args []Term
	for _, a := range c.Args {
		args = append(args, tr.val(a))
	}
	tr.curCallArgs = c.Args
	tr.curCallee = c.Value
	defer func() { tr.curCallArgs = nil; tr.curCallee = nil }()
	sig := c.Signature()
	if c.IsInvoke() {
		recv := tr.val(c.Value)
		tr.panicCheck("nil-iface-call:"+tr.srcText(pos)+":."+c.Method.Name(), not(eq("(itag "+recv+")", "0")), pos)
		key := ifaceKey(c.Value.Type(), c.Method)
		fc := tr.prog.CS.Funcs[key]
		if fc == nil && (key == "error.Error") {
			fr := tr.ifaceMethodRef(c.Value.Type(), c.Method)
			tr.setResults(v, []Term{app(fr.sym, recv)})
			return
		}
		if fc != nil && fc.PureFn {
			fr := tr.ifaceMethodRef(c.Value.Type(), c.Method)
			var rs []Term
			for i := range fr.results {
				sym := fr.sym
				if i > 0 {
					sym = q(fmt.Sprintf("im.%s.%d", key, i))
				}
				rs = append(rs, app(sym, append([]Term{recv}, args...)...))
			}
			// requires of a pure interface method are still obligations
			tr.applyContract(fc, c.Method.Type().(*types.Signature), key, &recv, c.Value.Type(), args, st, pos, rs)
			tr.setResults(v, rs)
			return
		}
		if fc != nil {
			rs := tr.applyContract(fc, c.Method.Type().(*types.Signature), key, &recv, c.Value.Type(), args, st, pos, nil)
			tr.setResults(v, rs)
			return
		}
		tr.uncontracted(v, key, sig, st)
		return
	}
	if callee := c.StaticCallee(); callee != nil {
		key := funcKey(callee)
		if callee.Pkg != nil && callee.Pkg.Pkg.Path() == "sync/atomic" && tr.atomicCall(v, callee.Name(), c, st, pos) {
			return
		}
		if callee.Pkg != nil && callee.Pkg.Pkg.Path() == "fmt" && (callee.Name() == "Sprintf" || callee.Name() == "Errorf") && tr.sprintfNative(v, callee.Name(), c, st) {
			return
		}
		if callee.Pkg != nil && callee.Pkg.Pkg.Path() == "encoding/json" && callee.Name() == "Unmarshal" && tr.jsonUnmarshal(v, c, st) {
			return
		}
		if callee.Pkg != nil && callee.Pkg.Pkg.Path() == "sort" && (callee.Name() == "Slice" || callee.Name() == "SliceStable") && tr.sortSlice(c, st) {
			return
		}
		if mc, ok := c.Value.(*ssa.MakeClosure); ok {
			_ = mc
		}
		fc := tr.prog.CS.Funcs[key]
		// opt opaque_calls=<substring,...>: this caller does not use the contract of these callees (they are
		// over-approximated by havoc like an uncontracted callee); for callees whose contract speaks about
		// function-typed arguments that this call site cannot bind
		if tr.fc != nil && fc != nil {
			for _, sub := range strings.Split(tr.fc.Opts["opaque_calls"], ",") {
				if sub = strings.TrimSpace(sub); sub != "" && strings.Contains(key, sub) {
					fc = nil
				}
			}
		}
		if fc != nil {
			csig := callee.Signature
			var recv *Term
			var recvT types.Type
			cargs := args
			if csig.Recv() != nil && len(args) > 0 {
				recv = &args[0]
				recvT = csig.Recv().Type()
				cargs = args[1:]
			}
			// interior pointers escaping into a contracted callee lose their connection with the enclosing object
			for i, a := range c.Args {
				if _, isFA := a.(*ssa.FieldAddr); isFA && !(fc.PureFn || fc.Opts["interior_ok"] == "true") {
					tr.errorf("interior pointer argument %d passed to %s at %s (unsupported)", i, key, tr.srcText(pos))
				}
			}
			var pre []Term
			if fc.PureFn {
				if obj, ok := callee.Object().(*types.Func); ok {
					if fr := tr.goFuncRef(obj); fr != nil {
						for i := range fr.results {
							sym := fr.sym
							if i > 0 {
								sym = q(fmt.Sprintf("gf.%s.%d", key, i))
							}
							pre = append(pre, app(sym, args...))
						}
					}
				}
			}
			rs := tr.applyContract(fc, csig, key, recv, recvT, cargs, st, pos, pre)
			tr.setResults(v, rs)
			return
		}
		tr.uncontracted(v, key, sig, st)
		return
	}
	// call of the closure that a static function just returned (LoadBackend(env)(cmd, args)): the closure's own
	// contract, with its captured variables bound to the arguments of the outer call
	if inner, ok := c.Value.(*ssa.Call); ok {
		if g, binds, ok := tr.returnedClosure(inner); ok {
			gkey := funcKey(g)
			if fc := tr.prog.CS.Funcs[gkey]; fc != nil {
				tr.extraCallVars = binds
				rs := tr.applyContract(fc, g.Signature, gkey, nil, nil, args, st, pos, nil)
				tr.extraCallVars = nil
				tr.setResults(v, rs)
				return
			}
		}
	}
	// call through a function value
	var pureName string
	if p, ok := c.Value.(*ssa.Parameter); ok {
		pureName = p.Name()
	} else if u, ok := c.Value.(*ssa.UnOp); ok {
		if fv, ok := u.X.(*ssa.FreeVar); ok {
			pureName = fv.Name()
		}
	}
	if pureName != "" {
		p := struct{ name string }{pureName}
		if fr, ok := tr.pure[p.name]; ok {
			var rs []Term
			for i := range fr.results {
				sym := fr.sym
				if i > 0 {
					sym = q(fmt.Sprintf("pf.%s.%d", p.name, i))
				}
				rs = append(rs, app(sym, args...))
			}
			// ghost record of the call
			for i, a := range args {
				sn := fmt.Sprintf("call.%s.arg%d", p.name, i)
				tr.stateSort[sn] = tr.vc.sortOf(fr.params[i])
				tr.setState(st, sn, a)
			}
			for i, r := range rs {
				sn := fmt.Sprintf("call.%s.res%d", p.name, i)
				tr.stateSort[sn] = tr.vc.sortOf(fr.results[i])
				tr.setState(st, sn, r)
			}
			nn := "call." + p.name + ".n"
			tr.stateSort[nn] = "Int"
			tr.setState(st, nn, app("+", tr.getState(st, nn), "1"))
			tr.setResults(v, rs)
			// results satisfy their type invariants
			for i, r := range rs {
				if inv := tr.typeInv(r, fr.results[i], st, 0); inv != "true" {
					tr.vc.assume(implies(reach, inv))
				}
			}
			return
		}
	}
	tr.panicCheck("nil-func-call:"+tr.srcText(pos), not(eq(tr.val(c.Value), "0")), pos)
	// call through a struct field of function type: contract keyed by pkg.Struct.field
	if key := funcFieldKey(c.Value); key != "" {
		if fc := tr.prog.CS.Funcs[key]; fc != nil {
			// `recv` in the contract of a function-typed field: the object whose field is called
			if u, ok := c.Value.(*ssa.UnOp); ok {
				if fa, ok := u.X.(*ssa.FieldAddr); ok {
					if _, done := tr.vals[fa.X]; done {
						e0 := &Env{tr: tr, vc: tr.vc, errs: &tr.errs}
						tr.extraCallVars = map[string]SV{"recv": e0.goSV(tr.val(fa.X), fa.X.Type())}
						defer func() { tr.extraCallVars = nil }()
					}
				}
			}
			rs := tr.applyContract(fc, sig, key, nil, nil, args, st, pos, nil)
			tr.setResults(v, rs)
			tr.note("assumed contract of function-typed field " + key + " (its implementations are checked where they are under contract)")
			return
		}
	}
	// call of a value of a named function type that is declared `purefn` (type-level contract `func TypeName`):
	// the value is a deterministic function of its arguments
	if sym, rt := tr.dynPureSym(c.Value.Type()); sym != "" {
		r := app(sym, append([]Term{tr.val(c.Value)}, args...)...)
		tr.setResults(v, []Term{r})
		if inv := tr.typeInv(r, rt, st, 0); inv != "true" {
			tr.vc.assume(implies(reach, inv))
		}
		return
	}
	tr.uncontracted(v, "dynamic call of "+c.Value.Name()+" at "+tr.srcText(pos), sig, st)
}

// dynPureSym: for a named function type with a `purefn` type-level contract, the uninterpreted symbol that
// stands for "apply" (first argument: the function value), and the result type.
func (tr *trans) dynPureSym(t types.Type) (string, types.Type) {
	n, ok := t.(*types.Named)
	if !ok || n.Obj().Pkg() == nil {
		return "", nil
	}
	sig, ok := n.Underlying().(*types.Signature)
	if !ok || sig.Results().Len() != 1 {
		return "", nil
	}
	key := n.Obj().Pkg().Path() + "." + n.Obj().Name()
	fc := tr.prog.CS.Funcs[key]
	if fc == nil || !fc.PureFn {
		return "", nil
	}
	sym := q("dyn." + key)
	ps := []Sort{"Int"}
	for i := 0; i < sig.Params().Len(); i++ {
		ps = append(ps, tr.vc.sortOf(sig.Params().At(i).Type()))
	}
	tr.declSym(sym, ps, tr.vc.sortOf(sig.Results().At(0).Type()))
	tr.note("values of function type " + key + " are deterministic, side-effect-free functions of their arguments (type-level purefn contract)")
	return sym, sig.Results().At(0).Type()
}

func (tr *trans) uncontracted(v ssa.Value, key string, sig *types.Signature, st State) {
	tr.warnf("uncontracted callee %s: over-approximated (arbitrary results, every heap and ghost variable havocked)", key)
	tr.note("uncontracted callee " + key + " is assumed to terminate without panicking; its effect is over-approximated by havoc")
	tr.havocAll(st)
	tr.ncall++
	rs := tr.freshResults(fmt.Sprintf("call%d", tr.ncall), sig, st)
	if v != nil {
		tr.setResults(v, rs)
	}
}

// applyContract: assert the precondition, havoc the frame, assume the postcondition.
// preRes, when non-nil, are the result terms to use (pure functions) instead of fresh constants.
func (tr *trans) applyContract(fc *FuncContract, sig *types.Signature, key string, recv *Term, recvT types.Type, args []Term, st State, pos token.Pos, preRes []Term) []Term {
	reach := tr.reach[tr.curB.Index]
	tr.ncall++
	cid := tr.ncall
	tr.needAxioms(fc.PkgPath)
	env := &Env{tr: tr, vc: tr.vc, pkgPath: fc.PkgPath, st: st, old: st, vars: map[string]SV{}, with: fc.With, lets: map[string]Expr{}, errs: &tr.errs}
	if recv != nil && sig.Recv() != nil {
		rt := recvT
		if rt == nil {
			rt = sig.Recv().Type()
		}
		n := sig.Recv().Name()
		if n == "" || n == "_" {
			n = "recv"
		}
		env.vars[n] = env.goSV(*recv, rt)
		env.vars[n+"0"] = env.vars[n]
		env.vars["recv"] = env.vars[n]
	}
	for n, sv := range tr.extraCallVars {
		env.vars[n] = sv
		env.vars[n+"0"] = sv
	}
	// call of a local closure: its contract speaks about the captured variables by name - their content before
	// the call (name0, and name in preconditions) and after it (name in postconditions)
	var capCells map[string]*Loc
	if mc, ok := tr.curCallee.(*ssa.MakeClosure); ok {
		if g, ok := mc.Fn.(*ssa.Function); ok {
			capCells = map[string]*Loc{}
			for i, fv := range g.FreeVars {
				if i < len(mc.Bindings) {
					if _, isPtr := mc.Bindings[i].Type().Underlying().(*types.Pointer); isPtr {
						if _, done := tr.vals[mc.Bindings[i]]; done || isAlloc(mc.Bindings[i]) {
							capCells[fv.Name()] = tr.locOf(mc.Bindings[i])
						}
					}
				}
			}
			for name := range fc.Pure {
				if fr, ok := tr.pure[name]; ok {
					env.vars[name] = SV{kind: "fn", fn: fr, sort: "fn"}
				}
			}
			preSt := st.clone()
			env.lookup = func(name string) (SV, bool) {
				base := strings.TrimSuffix(name, "0")
				if l, ok := capCells[name]; ok {
					return env.goSV(tr.load(preSt, l), l.ty), true
				}
				if l, ok := capCells[base]; ok && base != name {
					return env.goSV(tr.load(preSt, l), l.ty), true
				}
				return SV{}, false
			}
		}
	}
	for i := 0; i < sig.Params().Len() && i < len(args); i++ {
		p := sig.Params().At(i)
		n := p.Name()
		if n == "" || n == "_" {
			n = fmt.Sprintf("arg%d", i)
		}
		env.vars[n] = env.goSV(args[i], p.Type())
		env.vars[n+"0"] = env.vars[n]
		// a pure function parameter of the callee that receives a pure function parameter of the caller
		if fc.Pure[n] && tr.curCallArgs != nil {
			off := len(tr.curCallArgs) - len(args)
			if off >= 0 && off+i < len(tr.curCallArgs) {
				an := ""
				if cp, ok := tr.curCallArgs[off+i].(*ssa.Parameter); ok {
					an = cp.Name()
				} else if u, ok := tr.curCallArgs[off+i].(*ssa.UnOp); ok {
					if fv, ok := u.X.(*ssa.FreeVar); ok {
						an = fv.Name()
					}
				}
				if fr, ok := tr.pure[an]; ok && an != "" {
					env.vars[n] = SV{kind: "fn", fn: fr, sort: "fn"}
				}
			}
		}
	}
	short := key[strings.LastIndex(key, "/")+1:]
	np := 0
	// preconditions that are neither proved nor assumed here (callee opted them out for this caller): the
	// postcondition is then only known under them
	var unproved []Term
	for _, it := range fc.Items {
		switch it.Kind {
		case "let":
			env.lets[it.Name] = it.E
		case "requires":
			np++
			label := it.Label
			if label == "" {
				label = fmt.Sprint(np)
			}
			g := implies(reach, env.elabBool(it.E))
			// a callee may declare its preconditions to be obligations only for callers that opt in
			// (e.g. the lock discipline of sync: `opt pre_only_if=locks` / caller `opt locks`)
			assumed := false
			if tr.fc != nil {
				for _, sub := range strings.Split(tr.fc.Opts["assume_pre"], ",") {
					if sub = strings.TrimSpace(sub); sub != "" && strings.Contains(key, sub) {
						assumed = true
						tr.note("preconditions of " + key + " are assumed in " + tr.key + " (opt assume_pre)")
					}
				}
			}
			need := fc.Opts["pre_only_if"]
			if it.OnlyIf != "" {
				need = it.OnlyIf
			}
			if !assumed && (need == "" || (tr.fc != nil && tr.fc.Opts[need] == "true")) {
				tr.oblige("pre", fmt.Sprintf("%s[%s]@%s", short, label, tr.srcText(pos)), g, pos)
			} else if !assumed {
				tr.note("preconditions of " + key + " are not checked in functions that do not opt in with `opt " + need + "`; its postcondition is used only where they hold")
				// opt post_unguarded: the opt-in preconditions only rule out blocking (lock discipline); a call that
				// returns satisfies the postcondition regardless
				if fc.Opts["total_post"] != "true" && fc.Opts["post_unguarded"] != "true" {
					unproved = append(unproved, env.elabBool(it.E))
				}
				continue
			}
			tr.vc.assume(g)
		}
	}
	pre := st.clone()
	// a ghost variable the caller declares stable is still changed by a contracted callee whose postconditions
	// speak about it (the callee's contract is what is known about the call, and keeping the old value next to
	// "new == old + 1" would be a contradiction: everything after the call unreachable)
	if len(tr.stableHeaps) > 0 && !fc.PureFn && (!fc.HasModifies || fc.ModAll) {
		saved := tr.stableHeaps
		kept := map[string]bool{}
		for name := range saved {
			mentioned := false
			if strings.HasPrefix(name, "ghost.") {
				gn := strings.TrimSuffix(strings.TrimPrefix(name, "ghost."), "$dom")
				short := gn
				if i := strings.LastIndex(gn, "."); i >= 0 {
					short = gn[i+1:]
				}
				for _, it := range fc.Items {
					if (it.Kind == "ensures" || it.Kind == "defines") && strings.Contains(it.Src, short) {
						mentioned = true
					}
				}
			}
			if !mentioned {
				kept[name] = true
			}
		}
		tr.stableHeaps = kept
		defer func() { tr.stableHeaps = saved }()
	}
	// frame
	switch {
	case fc.PureFn:
	case fc.ModAll && len(fc.ModExcept) > 0:
		keep := tr.footprint(env, fc.ModExcept)
		tr.havocAllExcept(st, keep.whole)
	case !fc.HasModifies || fc.ModAll:
		tr.havocAll(st)
	default:
		fp := tr.footprint(env, fc.Modifies)
		for _, name := range sortedKeys(fp.whole) {
			tr.havocState(st, name)
		}
		for _, name := range sortedKeys(fp.at) {
			cur := tr.getState(st, name)
			srt := tr.stateSort[name]
			// element sort of (Array Int X)
			es := strings.TrimSuffix(strings.TrimPrefix(srt, "(Array Int "), ")")
			for _, r := range fp.at[name] {
				f := tr.vc.fresh("havoc")
				tr.vc.declConst(f, es)
				// nothing is ever written at the nil reference
				cur = ite(eq(r, "0"), cur, store(cur, r, f))
			}
			tr.setState(st, name, cur, fp.at[name]...)
		}
		old := tr.getState(st, "$next")
		n := tr.havocState(st, "$next")
		tr.vc.assume(app(">=", n, old))
		tr.assumeHeapWF(st, append(sortedKeys(fp.whole), sortedKeys(fp.at)...))
	}
	// results
	var rs []Term
	if preRes != nil {
		rs = preRes
		// results of pure functions are ordinary values of their types (e.g. a nil interface has no payload)
		for i, r := range rs {
			if i < sig.Results().Len() {
				if inv := tr.typeInv(r, sig.Results().At(i).Type(), st, 0); inv != "true" {
					tr.vc.assume(implies(reach, inv))
				}
			}
		}
	} else {
		rs = tr.freshResults(fmt.Sprintf("call%d", cid), sig, st)
	}
	env2 := *env
	env2.st = st
	env2.old = pre
	if capCells != nil {
		env2.lookup = func(name string) (SV, bool) {
			if l, ok := capCells[name]; ok {
				return env2.goSV(tr.load(st, l), l.ty), true
			}
			base := strings.TrimSuffix(name, "0")
			if l, ok := capCells[base]; ok && base != name {
				return env2.goSV(tr.load(pre, l), l.ty), true
			}
			return SV{}, false
		}
	}
	env2.vars = map[string]SV{}
	for k, v := range env.vars {
		env2.vars[k] = v
	}
	rn := resultNamesOf(sig)
	for i, r := range rs {
		sv := env2.goSV(r, sig.Results().At(i).Type())
		env2.vars[rn[i]] = sv
		env2.vars[fmt.Sprintf("result%d", i)] = sv
		if i == 0 {
			env2.vars["result"] = sv
		}
		if i == len(rs)-1 && types.Identical(sig.Results().At(i).Type(), types.Universe.Lookup("error").Type()) {
			if _, taken := env.vars["err"]; !taken {
				env2.vars["err"] = sv
			}
		}
	}
	if !(fc.PureFn && preRes != nil && recv == nil && false) {
		for _, it := range fc.Items {
			switch it.Kind {
			case "let":
				env2.lets[it.Name] = it.E
			case "ensures":
				tr.vc.assume(implies(and(append([]Term{reach}, unproved...)...), env2.elabBool(it.E)))
			case "defines":
				tr.vc.assume(implies(and(append([]Term{reach}, unproved...)...), env2.elabBool(it.E)))
				tr.note("ghost-state definition of " + key + ": " + it.Src)
			}
		}
	}
	if fc.External || fc.Trusted {
		tr.note("assumed contract of " + key + " (trusted/external)")
	}
	return rs
}

// ---------------------------------------------------------------- builtins

func (tr *trans) builtin(v ssa.Value, b *ssa.Builtin, c *ssa.CallCommon, st State, pos token.Pos) {
	switch b.Name() {
	case "len":
		a := tr.val(c.Args[0])
		switch u := c.Args[0].Type().Underlying().(type) {
		case *types.Slice:
			tr.setVal(v, "(sllen "+a+")")
		case *types.Basic:
			tr.setVal(v, app("slen", a))
		case *types.Map:
			tr.setVal(v, ite(eq(a, "0"), "0", sel(tr.getState(st, tr.mapHeap(u, "len")), a)))
			tr.vc.assume(app(">=", tr.vals[v], "0"))
		case *types.Array:
			tr.setVal(v, num(u.Len()))
		case *types.Pointer:
			tr.setVal(v, num(u.Elem().Underlying().(*types.Array).Len()))
		default:
			tr.freshVal(v, st)
			tr.vc.assume(app(">=", tr.vals[v], "0"))
		}
	case "cap":
		a := tr.val(c.Args[0])
		if _, ok := c.Args[0].Type().Underlying().(*types.Slice); ok {
			tr.setVal(v, "(scap "+a+")")
		} else {
			tr.freshVal(v, st)
		}
	case "append":
		tr.appendCall(v, c, st, pos)
	case "copy":
		tr.copyCall(v, c, st, pos)
	case "delete":
		mt := c.Args[0].Type().Underlying().(*types.Map)
		m := tr.val(c.Args[0])
		k := tr.val(c.Args[1])
		hd, hl := tr.mapHeap(mt, "dom"), tr.mapHeap(mt, "len")
		dom := tr.getState(st, hd)
		ln := tr.getState(st, hl)
		was := and(not(eq(m, "0")), sel(sel(dom, m), k))
		tr.setState(st, hl, ite(was, store(ln, m, app("-", sel(ln, m), "1")), ln), m)
		tr.setState(st, hd, ite(was, store(dom, m, store(sel(dom, m), k, "false")), dom), m)
	case "print", "println":
	case "min", "max":
		a, bb := tr.val(c.Args[0]), tr.val(c.Args[1])
		op := "<="
		if b.Name() == "max" {
			op = ">="
		}
		tr.setVal(v, ite(app(op, a, bb), a, bb))
	case "close":
		tr.warnf("close(chan) modelled as no-op")
	case "recover":
		tr.freshVal(v, st)
	default:
		tr.errorf("unsupported builtin %s", b.Name())
		if v != nil {
			if _, isTuple := v.Type().(*types.Tuple); !isTuple {
				tr.freshVal(v, st)
			}
		}
	}
}

// constLenOfVarargs recognises `slice (new [k]T)[:]`.
func constLenOfVarargs(a ssa.Value) (int64, *ssa.Alloc, bool) {
	s, ok := a.(*ssa.Slice)
	if !ok || s.Low != nil || s.High != nil || s.Max != nil {
		return 0, nil, false
	}
	al, ok := s.X.(*ssa.Alloc)
	if !ok {
		return 0, nil, false
	}
	at, ok := al.Type().Underlying().(*types.Pointer).Elem().Underlying().(*types.Array)
	if !ok {
		return 0, nil, false
	}
	return at.Len(), al, true
}

func (tr *trans) appendCall(v ssa.Value, c *ssa.CallCommon, st State, pos token.Pos) {
	s := tr.val(c.Args[0])
	stype := c.Args[0].Type().Underlying().(*types.Slice)
	et := stype.Elem()
	es := tr.vc.sortOf(et)
	h := tr.arrHeap(et)
	A := tr.getState(st, h)
	// source elements: function j -> element
	var n Term
	var elemAt func(j Term) Term
	if c.Args[1].Type().Underlying() == types.Typ[types.String].Underlying() || tr.vc.sortOf(c.Args[1].Type()) == "Str" {
		t := tr.val(c.Args[1])
		n = app("slen", t)
		elemAt = func(j Term) Term { return app("sat", t, j) }
	} else {
		t := tr.val(c.Args[1])
		n = "(sllen " + t + ")"
		elemAt = func(j Term) Term { return sel(sel(A, "(sarr "+t+")"), app("+", "(soff "+t+")", j)) }
	}
	k, _, isConst := constLenOfVarargs(c.Args[1])
	if cst, ok := c.Args[1].(*ssa.Const); ok && cst.Value == nil {
		isConst, k = true, 0
	}
	ln := "(sllen " + s + ")"
	newLen := app("+", ln, n)
	fits := app("<=", newLen, "(scap "+s+")")
	ref := tr.newRef(st)
	ncap := tr.vc.fresh("newcap")
	tr.vc.declConst(ncap, "Int")
	tr.vc.assume(and(app(">=", ncap, newLen), app("<=", ncap, "9223372036854775807")))
	var inPlace, freshArr Term
	if isConst && k <= 4 {
		inPlace = sel(A, "(sarr "+s+")")
		for j := int64(0); j < k; j++ {
			inPlace = store(inPlace, app("+", "(soff "+s+")", ln, num(j)), elemAt(num(j)))
		}
		// fresh array: copy of old elements then the new ones
		fa := tr.vc.fresh("appended")
		tr.vc.declConst(fa, "(Array Int "+es+")")
		tr.vc.assume(fmt.Sprintf("(forall ((j Int)) (! (=> (and (<= 0 j) (< j %s)) (= (select %s j) (select (select %s (sarr %s)) (+ (soff %s) j)))) :pattern ((select %s j))))", ln, fa, A, s, s, fa))
		for j := int64(0); j < k; j++ {
			tr.vc.assume(eq(sel(fa, app("+", ln, num(j))), elemAt(num(j))))
		}
		freshArr = fa
	} else {
		ip := tr.vc.fresh("inplace")
		tr.vc.declConst(ip, "(Array Int "+es+")")
		old := sel(A, "(sarr "+s+")")
		base := app("+", "(soff "+s+")", ln)
		tr.vc.assume(fmt.Sprintf("(forall ((j Int)) (! (= (select %s j) (ite (and (<= %s j) (< j (+ %s %s))) %s (select %s j))) :pattern ((select %s j))))", ip, base, base, n, elemAt(app("-", "j", base)), old, ip))
		inPlace = ip
		fa := tr.vc.fresh("appended")
		tr.vc.declConst(fa, "(Array Int "+es+")")
		tr.vc.assume(fmt.Sprintf("(forall ((j Int)) (! (=> (and (<= 0 j) (< j %s)) (= (select %s j) (ite (< j %s) (select (select %s (sarr %s)) (+ (soff %s) j)) %s))) :pattern ((select %s j))))", newLen, fa, ln, A, s, s, elemAt(app("-", "j", ln)), fa))
		freshArr = fa
	}
	tr.setState(st, h, ite(fits, ite(eq(n, "0"), A, store(A, "(sarr "+s+")", inPlace)), store(A, ref, freshArr)), "(sarr "+s+")", ref)
	tr.setVal(v, ite(fits, fmt.Sprintf("(mkSlice (sarr %s) (soff %s) %s (scap %s))", s, s, newLen, s), fmt.Sprintf("(mkSlice %s 0 %s %s)", ref, newLen, ncap)))
	// consequences of the two cases above, stated from the old elements' side so that a fact known about an
	// old element carries over to its place in the result (E-matching needs the new term to exist). The index
	// forms are chosen so that they cancel against the axioms above (no matching loop).
	An := tr.getState(st, h)
	// every other array is untouched: stated from the old heap's side, so that facts about elements of other
	// slices of the same element type carry over (their reads in the new heap get named)
	tr.vc.assume(fmt.Sprintf("(forall ((r Int)) (! (=> (and (not (= r (sarr %s))) (not (= r %s))) (= (select %s r) (select %s r))) :pattern ((select %s r))))", s, ref, An, A, A))
	if isConst && k <= 4 {
		// name the appended elements in the result
		nv := tr.vals[v]
		for j := int64(0); j < k; j++ {
			tr.vc.assume(eq(sel(sel(An, "(sarr "+nv+")"), app("+", "(soff "+nv+")", ln, num(j))), elemAt(num(j))))
		}
	}
	inR := fmt.Sprintf("(and (<= (soff %s) jj) (< jj (+ (soff %s) %s)))", s, s, ln)
	tr.vc.assume(fmt.Sprintf("(forall ((jj Int)) (! (=> (and %s %s) (= (select (select %s (sarr %s)) jj) (select (select %s (sarr %s)) jj))) :pattern ((select (select %s (sarr %s)) jj))))", fits, inR, An, s, A, s, A, s))
	tr.vc.assume(fmt.Sprintf("(forall ((jj Int)) (! (=> (and (not %s) %s) (= (select %s (- jj (soff %s))) (select (select %s (sarr %s)) jj))) :pattern ((select (select %s (sarr %s)) jj))))", fits, inR, freshArr, s, A, s, A, s))
}

func (tr *trans) copyCall(v ssa.Value, c *ssa.CallCommon, st State, pos token.Pos) {
	d := tr.val(c.Args[0])
	et := c.Args[0].Type().Underlying().(*types.Slice).Elem()
	es := tr.vc.sortOf(et)
	h := tr.arrHeap(et)
	A := tr.getState(st, h)
	var n Term
	var elemAt func(j Term) Term
	if tr.vc.sortOf(c.Args[1].Type()) == "Str" {
		t := tr.val(c.Args[1])
		n = app("slen", t)
		elemAt = func(j Term) Term { return app("sat", t, j) }
	} else {
		t := tr.val(c.Args[1])
		n = "(sllen " + t + ")"
		elemAt = func(j Term) Term { return sel(sel(A, "(sarr "+t+")"), app("+", "(soff "+t+")", j)) }
	}
	cnt := ite(app("<=", "(sllen "+d+")", n), "(sllen "+d+")", n)
	tr.setVal(v, cnt)
	na := tr.vc.fresh("copied")
	tr.vc.declConst(na, "(Array Int "+es+")")
	base := "(soff " + d + ")"
	tr.vc.assume(fmt.Sprintf("(forall ((j Int)) (! (= (select %s j) (ite (and (<= %s j) (< j (+ %s %s))) %s (select (select %s (sarr %s)) j))) :pattern ((select %s j))))", na, base, base, tr.vals[v], elemAt(app("-", "j", base)), A, d, na))
	tr.setState(st, h, ite(eq(tr.vals[v], "0"), A, store(A, "(sarr "+d+")", na)), "(sarr "+d+")")
}

// ---------------------------------------------------------------- closures, defer, go

func (tr *trans) closureMade(x *ssa.MakeClosure, st State) {}

func (tr *trans) deferCall(x *ssa.Defer, st State) {
	if tr.loopOf(tr.curB.Index) != nil {
		tr.errorf("defer inside a loop at %s is not supported", tr.srcText(x.Pos()))
		return
	}
	idx := len(tr.deferred)
	tr.deferred = append(tr.deferred, x)
	name := fmt.Sprintf("defer.%d.pushed", idx)
	tr.stateSort[name] = "Bool"
	tr.setState(st, name, "true")
	// arguments are evaluated now
	for i, a := range x.Call.Args {
		an := fmt.Sprintf("defer.%d.arg%d", idx, i)
		tr.stateSort[an] = tr.vc.sortOf(a.Type())
		tr.setState(st, an, tr.val(a))
	}
	if x.Call.IsInvoke() {
		an := fmt.Sprintf("defer.%d.recv", idx)
		tr.stateSort[an] = "Iface"
		tr.setState(st, an, tr.val(x.Call.Value))
	}
}

func (tr *trans) loopOf(bi int) *loopInfo {
	for _, li := range tr.loopList {
		if li.blocks[bi] {
			return li
		}
	}
	return nil
}

func (tr *trans) runDefers(st State) {
	for idx := len(tr.deferred) - 1; idx >= 0; idx-- {
		d := tr.deferred[idx]
		name := fmt.Sprintf("defer.%d.pushed", idx)
		pushed := tr.getState(st, name)
		if pushed == tr.initSym(name) {
			// never pushed on this path
			continue
		}
		before := st.clone()
		// run the call on st under the assumption that it was pushed; merge afterwards
		saveReach := tr.reach[tr.curB.Index]
		gr := tr.vc.fresh("reach.defer")
		tr.vc.define(gr, "Bool", and(saveReach, pushed))
		tr.reach[tr.curB.Index] = gr
		cc := d.Call
		// substitute saved argument values
		savedVals := map[ssa.Value]Term{}
		for i, a := range cc.Args {
			if _, isConst := a.(*ssa.Const); isConst {
				continue
			}
			if old, ok := tr.vals[a]; ok {
				savedVals[a] = old
			}
			an := fmt.Sprintf("defer.%d.arg%d", idx, i)
			tr.vals[a] = tr.getState(st, an)
		}
		tr.call(nil, &cc, st)
		for a, old := range savedVals {
			tr.vals[a] = old
		}
		tr.reach[tr.curB.Index] = saveReach
		// merge
		for _, k := range sortedKeys(tr.known) {
			if _, ok := tr.stateSort[k]; !ok {
				continue
			}
			a, b := tr.getState(st, k), tr.getState(before, k)
			if a != b {
				sym := tr.vc.fresh(k + "@defer")
				tr.vc.define(sym, tr.stateSort[k], ite(pushed, a, b))
				st[k] = sym
			}
		}
	}
}

func (tr *trans) goStmt(x *ssa.Go, st State) {
	tr.warnf("go statement at %s: the spawned call is sequentialised at the spawn point", tr.srcText(x.Pos()))
	tr.note("goroutines spawned in " + tr.key + " are sequentialised at the spawn point (no interleaving semantics)")
	cc := x.Call
	tr.call(nil, &cc, st)
}

func (tr *trans) lockObligations(st State, k int, pos token.Pos) {}

// atomicCall models sync/atomic functions as sequential loads/stores (assumption: linearisable, no interleaving).
func (tr *trans) atomicCall(v ssa.Value, name string, c *ssa.CallCommon, st State, pos token.Pos) bool {
	if len(c.Args) == 0 {
		return false
	}
	if _, ok := c.Args[0].Type().Underlying().(*types.Pointer); !ok {
		return false
	}
	l := tr.locOf(c.Args[0])
	if rr := l.rootRef(); rr != "" {
		tr.panicCheck("nil-deref:"+tr.srcText(pos)+":atomic", not(eq(rr, "0")), pos)
	}
	tr.note("sync/atomic operations are modelled as sequential reads/writes (no interleaving)")
	wrap := func(t Term) Term {
		if lo, hi, ok := intRange(l.ty); ok {
			if isUnsigned(l.ty) {
				return app("mod", t, app("+", hi, "1"))
			}
			_ = lo
		}
		return t
	}
	switch {
	case strings.HasPrefix(name, "Load"):
		tr.setVal(v, tr.load(st, l))
		if inv := tr.typeInv(tr.vals[v], l.ty, st, 0); inv != "true" {
			tr.vc.assume(inv)
		}
	case strings.HasPrefix(name, "Store"):
		tr.store(st, l, tr.val(c.Args[1]))
	case strings.HasPrefix(name, "Add"):
		nv := wrap(app("+", tr.load(st, l), tr.val(c.Args[1])))
		tr.setVal(v, nv)
		tr.store(st, l, tr.vals[v])
	case strings.HasPrefix(name, "CompareAndSwap"):
		cur := tr.load(st, l)
		okT := eq(cur, tr.val(c.Args[1]))
		tr.setVal(v, okT)
		tr.store(st, l, ite(tr.vals[v], tr.val(c.Args[2]), cur))
	case strings.HasPrefix(name, "Swap"):
		tr.setVal(v, tr.load(st, l))
		tr.store(st, l, tr.val(c.Args[1]))
	default:
		return false
	}
	return true
}

// funcFieldKey: "pkgpath.Struct.field" when v is the value of a function-typed struct field.
func funcFieldKey(v ssa.Value) string {
	var st types.Type
	idx := -1
	switch x := v.(type) {
	case *ssa.Field:
		st, idx = x.X.Type(), x.Field
	case *ssa.UnOp:
		if fa, ok := x.X.(*ssa.FieldAddr); ok && x.Op == token.MUL {
			if pt, ok := fa.X.Type().Underlying().(*types.Pointer); ok {
				st, idx = pt.Elem(), fa.Field
			}
		}
	}
	if st == nil {
		return ""
	}
	n, ok := st.(*types.Named)
	if !ok || n.Obj().Pkg() == nil {
		return ""
	}
	s, ok := n.Underlying().(*types.Struct)
	if !ok || idx >= s.NumFields() {
		return ""
	}
	return n.Obj().Pkg().Path() + "." + n.Obj().Name() + "." + s.Field(idx).Name()
}

// sortSlice models sort.Slice(x, less): the slice content becomes a permutation of itself (every new
// element is an old one and vice versa); the order produced by `less` is not modelled.
func (tr *trans) sortSlice(c *ssa.CallCommon, st State) bool {
	mi, ok := c.Args[0].(*ssa.MakeInterface)
	if !ok {
		return false
	}
	sl, ok := mi.X.Type().Underlying().(*types.Slice)
	if !ok {
		return false
	}
	s := tr.val(mi.X)
	et := sl.Elem()
	es := tr.vc.sortOf(et)
	h := tr.arrHeap(et)
	A := tr.getState(st, h)
	old := sel(A, "(sarr "+s+")")
	nb := tr.vc.fresh("sorted")
	tr.vc.declConst(nb, "(Array Int "+es+")")
	perm := tr.vc.fresh("perm")
	inv := tr.vc.fresh("perminv")
	tr.vc.emit(fmt.Sprintf("(declare-fun %s (Int) Int)", perm))
	tr.vc.emit(fmt.Sprintf("(declare-fun %s (Int) Int)", inv))
	lo := "(soff " + s + ")"
	hi := app("+", "(soff "+s+")", "(sllen "+s+")")
	in := func(x Term) Term { return and(app("<=", lo, x), app("<", x, hi)) }
	tr.vc.assume(fmt.Sprintf("(forall ((j Int)) (! (ite %s (and %s (= (select %s j) (select %s (%s j)))) (= (select %s j) (select %s j))) :pattern ((select %s j))))", in("j"), in("("+perm+" j)"), nb, old, perm, nb, old, nb))
	tr.vc.assume(fmt.Sprintf("(forall ((j Int)) (! (=> %s (and %s (= (%s (%s j)) j))) :pattern ((select %s j))))", in("j"), in("("+inv+" j)"), perm, inv, old))
	// the permutation is a bijection of the index range; name the image of every old element
	tr.vc.assume(fmt.Sprintf("(forall ((j Int)) (! (=> %s (= (select %s (%s j)) (select %s j))) :pattern ((select %s j))))", in("j"), nb, inv, old, old))
	tr.vc.assume(fmt.Sprintf("(forall ((j Int)) (! (=> %s (= (%s (%s j)) j)) :pattern ((%s j))))", in("j"), inv, perm, perm))
	tr.setState(st, h, store(A, "(sarr "+s+")", nb), "(sarr "+s+")")
	if tr.sortedByClosure(c, s, st) {
		return true
	}
	tr.note("sort.Slice permutes the slice (the resulting order is not modelled)")
	return true
}

// jsonUnmarshal models json.Unmarshal(data, &x): the target object gets arbitrary content of its type
// (pointers possibly nil), freshly allocated memory may appear, nothing else changes; the result is an
// arbitrary error. Assumption (listed): the decoder writes only into the target and into memory it allocates.
func (tr *trans) jsonUnmarshal(v ssa.Value, c *ssa.CallCommon, st State) bool {
	mi, ok := c.Args[1].(*ssa.MakeInterface)
	if !ok {
		return false
	}
	pt, ok := mi.X.Type().Underlying().(*types.Pointer)
	if !ok {
		return false
	}
	if _, isFA := mi.X.(*ssa.FieldAddr); isFA {
		return false
	}
	l := tr.locOf(mi.X)
	if l.kind != locObj {
		return false
	}
	et := pt.Elem()
	nv := tr.vc.fresh("decoded")
	tr.vc.declConst(nv, tr.vc.sortOf(et))
	old := tr.getState(st, "$next")
	n := tr.havocState(st, "$next")
	tr.vc.assume(app(">=", n, old))
	tr.store(st, l, nv)
	if inv := tr.typeInv(nv, et, st, 0); inv != "true" {
		tr.vc.assume(inv)
	}
	tr.ncall++
	rs := tr.freshResults(fmt.Sprintf("call%d", tr.ncall), c.Signature(), st)
	tr.setResults(v, rs)
	tr.note("json.Unmarshal writes only into its target object and freshly allocated memory; the decoded value is arbitrary (pointers may be nil)")
	return true
}

// varargElems: the SSA values stored into a `new [k]T` varargs array passed as slice argument.
func varargElems(a ssa.Value) ([]ssa.Value, bool) {
	if c, ok := a.(*ssa.Const); ok && c.Value == nil {
		return nil, true
	}
	n, al, ok := constLenOfVarargs(a)
	if !ok {
		return nil, false
	}
	elems := make([]ssa.Value, n)
	refs := al.Referrers()
	if refs == nil {
		return nil, false
	}
	for _, r := range *refs {
		ia, ok := r.(*ssa.IndexAddr)
		if !ok {
			continue
		}
		ic, ok := ia.Index.(*ssa.Const)
		if !ok {
			return nil, false
		}
		irefs := ia.Referrers()
		if irefs == nil {
			return nil, false
		}
		for _, s := range *irefs {
			if st, ok := s.(*ssa.Store); ok && st.Addr == ia {
				idx := ic.Int64()
				if idx < 0 || idx >= n || elems[idx] != nil {
					return nil, false
				}
				elems[idx] = st.Val
			}
		}
	}
	for _, e := range elems {
		if e == nil {
			return nil, false
		}
	}
	return elems, true
}

// sprintfNative: fmt.Sprintf / fmt.Errorf with a constant format made of literal text and %s %d %v verbs
// applied to strings and integers is a concatenation (integers rendered by the injective str.of.int).
// Anything else falls back to the assumed contract (an uninterpreted pure function).
func (tr *trans) sprintfNative(v ssa.Value, name string, c *ssa.CallCommon, st State) bool {
	fc, ok := c.Args[0].(*ssa.Const)
	var fmtSuffix ssa.Value
	if !ok {
		// format built as <constant> + <string value> (e.g. pattern+id): the value is taken to contain no verb
		if bo, isBin := c.Args[0].(*ssa.BinOp); isBin && bo.Op == token.ADD {
			if c0, isC := bo.X.(*ssa.Const); isC && c0.Value != nil && tr.vc.sortOf(bo.Y.Type()) == "Str" {
				fc, ok, fmtSuffix = c0, true, bo.Y
			}
		}
	}
	if !ok || fc.Value == nil {
		return false
	}
	format := constantString(fc)
	elems, ok := varargElems(c.Args[1])
	if !ok {
		return false
	}
	var parts []Term
	lit := ""
	ai := 0
	for i := 0; i < len(format); i++ {
		if format[i] != '%' {
			lit += string(format[i])
			continue
		}
		if i+1 >= len(format) {
			return false
		}
		verb := format[i+1]
		i++
		if verb == '%' {
			lit += "%"
			continue
		}
		if verb != 's' && verb != 'd' && verb != 'v' {
			return false
		}
		if ai >= len(elems) {
			return false
		}
		mi, ok := elems[ai].(*ssa.MakeInterface)
		if !ok {
			return false
		}
		ai++
		xt := mi.X.Type()
		b, isBasic := xt.Underlying().(*types.Basic)
		if !isBasic {
			return false
		}
		// named types with String()/Error() methods are formatted through them: only plain kinds here
		if n, ok := xt.(*types.Named); ok && n.NumMethods() > 0 {
			hasFmt := false
			for m := 0; m < n.NumMethods(); m++ {
				if mn := n.Method(m).Name(); mn == "String" || mn == "Error" || mn == "Format" || mn == "GoString" {
					hasFmt = true
				}
			}
			if hasFmt && !(b.Info()&types.IsString != 0 && verb == 's' && false) {
				// e.g. entity.Id has String() returning the same string: accept when String() has a purefn contract saying so
				if b.Info()&types.IsString == 0 {
					return false
				}
				key := ""
				if n.Obj().Pkg() != nil {
					key = n.Obj().Pkg().Path() + "." + n.Obj().Name() + ".String"
				}
				if sc := tr.prog.CS.Funcs[key]; sc == nil || !sc.PureFn {
					return false
				}
			}
		}
		if lit != "" {
			parts = append(parts, tr.vc.strLit(lit))
			lit = ""
		}
		switch {
		case b.Info()&types.IsString != 0:
			parts = append(parts, tr.val(mi.X))
		case b.Info()&types.IsInteger != 0:
			parts = append(parts, app("str.of.int", tr.val(mi.X)))
		default:
			return false
		}
	}
	if ai != len(elems) {
		return false
	}
	if lit != "" {
		parts = append(parts, tr.vc.strLit(lit))
	}
	if fmtSuffix != nil {
		parts = append(parts, tr.val(fmtSuffix))
		tr.note("fmt.Sprintf format built as constant + value: the value (" + fmtSuffix.Name() + " at " + tr.srcText(c.Pos()) + ") is assumed to contain no % verb")
	}
	var t Term = "str.empty"
	for i, p := range parts {
		if i == 0 {
			t = p
		} else {
			t = app("scat", t, p)
		}
	}
	if name == "Errorf" {
		// a fresh non-nil error whose message is the text
		tr.ncall++
		rs := tr.freshResults(fmt.Sprintf("call%d", tr.ncall), c.Signature(), st)
		tr.vc.assume(not(eq("(itag "+rs[0]+")", "0")))
		tr.setResults(v, rs)
		return true
	}
	tr.setVal(v, t)
	tr.note("fmt.Sprintf with %s/%d/%v on strings and integers is modelled as concatenation (integers through an injective decimal rendering)")
	return true
}

func constantString(c *ssa.Const) string {
	if c.Value == nil {
		return ""
	}
	s := c.Value.ExactString()
	if u, err := strconv.Unquote(s); err == nil {
		return u
	}
	return s
}

// returnedClosure: inner is a call of a static function F whose only return hands back `make closure G [cells]`,
// each cell initialised from a parameter of F. Returns G and the values of G's free variables for this call.
func (tr *trans) returnedClosure(inner *ssa.Call) (*ssa.Function, map[string]SV, bool) {
	f := inner.Call.StaticCallee()
	if f == nil || len(f.Blocks) == 0 || inner.Call.IsInvoke() {
		return nil, nil, false
	}
	var mc *ssa.MakeClosure
	nret := 0
	for _, b := range f.Blocks {
		for _, in := range b.Instrs {
			if r, ok := in.(*ssa.Return); ok {
				nret++
				if len(r.Results) != 1 {
					return nil, nil, false
				}
				m, ok := r.Results[0].(*ssa.MakeClosure)
				if !ok {
					return nil, nil, false
				}
				mc = m
			}
		}
	}
	if nret != 1 || mc == nil {
		return nil, nil, false
	}
	g, ok := mc.Fn.(*ssa.Function)
	if !ok {
		return nil, nil, false
	}
	env := &Env{tr: tr, vc: tr.vc, errs: &tr.errs}
	binds := map[string]SV{}
	for i, bv := range mc.Bindings {
		al, ok := bv.(*ssa.Alloc)
		if !ok || i >= len(g.FreeVars) {
			return nil, nil, false
		}
		// the cell must be initialised from a parameter of F and nothing else in F
		var src *ssa.Parameter
		for _, ref := range *al.Referrers() {
			if s, ok := ref.(*ssa.Store); ok && s.Addr == al {
				p, isParam := s.Val.(*ssa.Parameter)
				if !isParam || src != nil {
					return nil, nil, false
				}
				src = p
			}
		}
		if src == nil {
			return nil, nil, false
		}
		for pi, p := range f.Params {
			if p == src && pi < len(inner.Call.Args) {
				binds[g.FreeVars[i].Name()] = env.goSV(tr.val(inner.Call.Args[pi]), p.Type())
			}
		}
	}
	return g, binds, true
}

// sortedByClosure: when the comparator passed to sort.Slice is a closure under contract with a clause
// `ensures result == E` (E over i, j and the captured variables), the sorted slice satisfies, in the state after
// the sort: for all positions a < b, not E[i:=b, j:=a] (what sort.Slice guarantees for a comparator that is a
// strict weak order; that the comparator is one is not checked). The closure body is verified against its
// contract like any function.
func (tr *trans) sortedByClosure(c *ssa.CallCommon, s Term, st State) bool {
	mc, ok := c.Args[1].(*ssa.MakeClosure)
	if !ok {
		return false
	}
	g, ok := mc.Fn.(*ssa.Function)
	if !ok || len(g.Params) != 2 {
		return false
	}
	fc := tr.prog.CS.Funcs[funcKey(g)]
	if fc == nil {
		return false
	}
	var body Expr
	for _, it := range fc.Items {
		if it.Kind != "ensures" {
			continue
		}
		if b, ok := it.E.(*EBinary); ok && b.Op == "==" {
			if id, ok := b.X.(*EIdent); ok && id.Name == "result" {
				body = b.Y
			}
		}
	}
	if body == nil {
		return false
	}
	env := &Env{tr: tr, vc: tr.vc, pkgPath: fc.PkgPath, st: st, old: st, vars: map[string]SV{}, lets: map[string]Expr{}, errs: &tr.errs, with: fc.With}
	// captured variables: current content of their cells
	for k, bv := range mc.Bindings {
		if k >= len(g.FreeVars) {
			break
		}
		name := g.FreeVars[k].Name()
		if pt, ok := bv.Type().Underlying().(*types.Pointer); ok {
			if _, done := tr.vals[bv]; !done {
				return false
			}
			l := tr.locOf(bv)
			env.vars[name] = env.goSV(tr.load(st, l), pt.Elem())
			env.vars["captured_"+name] = env.vars[name]
		}
	}
	for _, it := range fc.Items {
		if it.Kind == "let" {
			env.lets[it.Name] = it.E
		}
	}
	a, b := tr.vc.fresh("srt.a"), tr.vc.fresh("srt.b")
	off := "(soff " + s + ")"
	ia := "(- " + a + " " + off + ")"
	ib := "(- " + b + " " + off + ")"
	// E[i:=b, j:=a]
	env.vars[g.Params[0].Name()] = env.intSV(ib)
	env.vars[g.Params[1].Name()] = env.intSV(ia)
	env.absIdx = map[string]Term{s + "|" + ia: a, s + "|" + ib: b}
	before := len(tr.errs)
	e := env.elabBool(body)
	if len(tr.errs) > before {
		return false
	}
	A := tr.getState(st, tr.arrHeap(c.Args[0].(*ssa.MakeInterface).X.Type().Underlying().(*types.Slice).Elem()))
	arr := "(select " + A + " (sarr " + s + "))"
	tr.vc.assume(fmt.Sprintf("(forall ((%s Int) (%s Int)) (! (=> (and (<= %s %s) (< %s %s) (< %s (+ %s (sllen %s)))) (not %s)) :pattern ((select %s %s) (select %s %s))))", a, b, off, a, a, b, b, off, s, e, arr, a, arr, b))
	tr.note("sort.Slice with comparator " + funcKey(g) + ": the result is ordered by the comparator's contract (that the comparator is a strict weak order is assumed)")
	return true
}

func isAlloc(v ssa.Value) bool { _, ok := v.(*ssa.Alloc); return ok }
