package main

import (
	"encoding/json"
	"flag"
	"fmt"
	"os"
	"path/filepath"
	"sort"
	"strconv"
	"strings"
	"time"

	"golang.org/x/tools/go/ssa"
)

var verifDir = "/verif"

// outDir: where evidence and replay files go (default: verifDir; the self-test redirects it)
var outDir = "/verif"

var loadPatterns = []string{
	"./api/...", "./bridge/core/...", "./bridge/gitlab/...", "./cache/...", "./commands/...", "./entities/...", "./entity/...",
	"./query/...", "./repository/...", "./util/...",
}

type funcResult struct {
	Key    string
	Obls   []*Obligation
	Errs   []string
	Warns  []string
	Notes  []string
	Loops  int
	Blocks int
}

func verifyFunc(prog *Program, key string, fc *FuncContract) *funcResult {
	res := &funcResult{Key: key}
	fn := prog.Funcs[key]
	if fn == nil {
		res.Errs = append(res.Errs, "contract-binding: no function "+key+" in the current tree")
		return res
	}
	tr := TranslateFunc(prog, fn, fc)
	res.Obls = tr.obls
	res.Errs = tr.errs
	res.Warns = tr.warns
	res.Notes = sortedKeys(tr.assumed)
	res.Loops = len(tr.loopList)
	for _, li := range tr.loopList {
		res.Notes = append(res.Notes, fmt.Sprintf("loop %d: head b%d at %s", li.ord, li.head, prog.SSA.Fset.Position(li.minPos)))
	}
	res.Blocks = len(fn.Blocks)
	for label, errs := range tr.checkNowhere {
		if !tr.checkStated[label] {
			res.Errs = append(res.Errs, fmt.Sprintf("contract-binding: check [%s] of %s cannot be stated at any return: %s", label, key, strings.Join(errs, "; ")))
		}
	}
	for i, a := range fc.Asserts {
		if !tr.assertBound[i] {
			res.Errs = append(res.Errs, fmt.Sprintf("contract-binding: %s has no statement `%s` for its assert", key, a.Text))
		}
	}
	// loop specs that do not bind to a loop
	for ord := range fc.Loops {
		if ord < 1 || ord > len(tr.loopList) {
			res.Errs = append(res.Errs, fmt.Sprintf("contract-binding: %s has no loop %d (it has %d)", key, ord, len(tr.loopList)))
		}
	}
	return res
}

func isIfaceMethodKey(prog *Program, key string) bool {
	// pkgpath.Type.Method where Type is an interface
	i := strings.LastIndex(key, ".")
	if i < 0 {
		return false
	}
	rest := key[:i]
	j := strings.LastIndex(rest, ".")
	if j < 0 {
		return false
	}
	pk, ok := prog.ByPath[rest[:j]]
	if !ok {
		return false
	}
	obj := pk.Types.Scope().Lookup(rest[j+1:])
	if obj == nil {
		return false
	}
	if _, isIface := obj.Type().Underlying().(interface{ NumEmbeddeds() int }); isIface {
		return true
	}
	// function-typed struct field
	if st, ok := obj.Type().Underlying().(interface {
		NumFields() int
	}); ok {
		_ = st
		if prog.Funcs[key] == nil {
			return true
		}
	}
	return false
}

type KnownFinding struct {
	Property   string `json:"property"`
	Obligation string `json:"obligation"`
	Witness    string `json:"witness"`
	Status     string `json:"status"` // known | fixed
	Commit     string `json:"commit,omitempty"`
	What       string `json:"what"`
}

func loadKnown() []KnownFinding {
	var kf struct {
		Findings []KnownFinding `json:"findings"`
	}
	data, err := os.ReadFile(filepath.Join(verifDir, "known_findings.json"))
	if err != nil {
		return nil
	}
	json.Unmarshal(data, &kf)
	return kf.Findings
}

func main() {
	if len(os.Args) < 2 {
		fmt.Println("usage: gbv check <prop> [--tier quick|thorough] | func <key> | list")
		os.Exit(2)
	}
	cmd := os.Args[1]
	fs := flag.NewFlagSet(cmd, flag.ExitOnError)
	tier := fs.String("tier", "quick", "quick|thorough")
	repo := fs.String("repo", "/repo", "repository directory")
	dump := fs.Bool("dump", false, "keep/dump SMT files")
	timeout := fs.Int("timeout", 0, "per-query timeout in seconds")
	verbose := fs.Bool("v", false, "verbose")
	out := fs.String("out", "", "directory for evidence/ and replay/ (default /verif)")
	var pos []string
	args := os.Args[2:]
	for len(args) > 0 && !strings.HasPrefix(args[0], "-") {
		pos = append(pos, args[0])
		args = args[1:]
	}
	fs.Parse(args)
	pos = append(pos, fs.Args()...)
	if *out != "" {
		outDir = *out
	}
	if t := os.Getenv("VERIF_TIER"); t != "" && cmd == "check" {
		*tier = t
	}
	seed := 0
	if s := os.Getenv("VERIF_SEED"); s != "" {
		seed, _ = strconv.Atoi(s)
	}
	start := time.Now()
	prog, err := LoadProgram(*repo, loadPatterns)
	if err != nil {
		fmt.Fprintln(os.Stderr, "load error:", err)
		if cmd == "check" && len(pos) > 0 {
			// the tree does not build: report as a violation of the binding obligation
			writeLoadFailure(pos[0], *tier, seed, err, time.Since(start).Seconds())
			os.Exit(1)
		}
		os.Exit(2)
	}
	for _, f := range contractFilesExternal() {
		prog.CS.LoadFile(f, "", true)
	}
	if len(prog.CS.Errors) > 0 {
		for _, e := range prog.CS.Errors {
			fmt.Fprintln(os.Stderr, "contract error:", e)
		}
		if cmd != "check" {
			os.Exit(2)
		}
	}
	loadS := time.Since(start).Seconds()
	to := *timeout
	if to == 0 {
		to = 20
		if *tier == "thorough" {
			to = 60
		}
	}
	switch cmd {
	case "list":
		for _, k := range sortedKeys(prog.CS.Funcs) {
			fc := prog.CS.Funcs[k]
			fmt.Printf("%s props=%v trusted=%v external=%v\n", k, fc.Props, fc.Trusted, fc.External)
		}
	case "func":
		if len(pos) == 0 {
			fmt.Println("need function key suffix")
			os.Exit(2)
		}
		var keys []string
		for _, k := range sortedKeys(prog.CS.Funcs) {
			if strings.Contains(k, pos[0]) && !prog.CS.Funcs[k].External && !prog.CS.Funcs[k].Trusted && !isIfaceMethodKey(prog, k) {
				keys = append(keys, k)
			}
		}
		if len(keys) == 0 {
			// no contract: verify with an empty nopanic-less contract to see the translation
			for k := range prog.Funcs {
				if strings.HasSuffix(k, pos[0]) {
					keys = append(keys, k)
					prog.CS.Funcs[k] = &FuncContract{Name: k, PkgPath: pkgOfKey(prog, k), With: map[string]TypeExpr{}, Pure: map[string]bool{}, Loops: map[int]*LoopSpec{}, Opts: map[string]string{}, NoPanic: true}
				}
			}
		}
		work := filepath.Join(os.TempDir(), fmt.Sprintf("gbv-work-%d", os.Getpid()))
		bad := 0
		for _, k := range keys {
			fr := verifyFunc(prog, k, prog.CS.Funcs[k])
			discharge(fr.Obls, solveOpts{timeoutS: to, workDir: work, seed: seed})
			fmt.Printf("== %s: %d obligations, %d blocks, %d loops\n", k, len(fr.Obls), fr.Blocks, fr.Loops)
			for _, e := range fr.Errs {
				fmt.Println("  ERROR:", e)
				bad++
			}
			for _, w := range fr.Warns {
				fmt.Println("  warn:", w)
			}
			if *verbose {
				for _, n := range fr.Notes {
					fmt.Println("  note:", n)
				}
			}
			for _, o := range fr.Obls {
				ok := o.Status == "unsat" && !o.ExpectSat || o.ExpectSat && o.Status != "unsat"
				mark := "ok  "
				if !ok {
					mark = "FAIL"
					bad++
				}
				if !ok || *verbose {
					fmt.Printf("  %s %-8s %6.2fs %-7s %s  (%s)\n", mark, o.Status, o.Seconds, o.Solver, o.Name, o.Pos)
				}
			}
		}
		if !*dump {
			os.RemoveAll(work)
		} else {
			fmt.Println("SMT files in", work)
		}
		if bad > 0 {
			os.Exit(1)
		}
	case "check":
		if len(pos) == 0 {
			fmt.Println("need property id")
			os.Exit(2)
		}
		os.Exit(checkProperty(prog, pos[0], *tier, seed, to, loadS, *dump, *verbose))
	default:
		fmt.Println("unknown command", cmd)
		os.Exit(2)
	}
}

func pkgOfKey(prog *Program, key string) string {
	if fn := prog.Funcs[key]; fn != nil && fn.Pkg != nil {
		return fn.Pkg.Pkg.Path()
	}
	return ""
}

func contractFilesExternal() []string {
	fs, _ := filepath.Glob(filepath.Join(verifDir, "contracts", "*.contracts"))
	sort.Strings(fs)
	return fs
}

var _ = ssa.GlobalDebug
