package main

// tryReplay turns a solver model into a concrete run of the real function (per-function drivers).
// Returns whether the failure was confirmed on the real code, and a text report.
func tryReplay(prog *Program, v violation) (bool, string) {
	return false, "no replay driver for this function; the model below is the verifier's counterexample (possibly a loop-head or post-havoc state)\n"
}
