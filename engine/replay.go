package main

// Replay of solver counterexamples on the real code.
//
// A driver (/verif/replay_drivers/*.tmpl) names the function it serves, the package directory, the
// SMT terms whose model values it needs, and a Go test template.  The test is injected into the
// real package with `go test -overlay` (nothing is written into /repo); it calls the real function
// on the model's input and re-evaluates the run-time checkable part of the violated clause.
// Output containing REPLAY-CONFIRMED means the violation was reproduced on the real code.

import (
	"bytes"
	"context"
	"encoding/json"
	"fmt"
	"os"
	"os/exec"
	"path/filepath"
	"regexp"
	"strings"
	"time"
)

type replayDriver struct {
	Key         string
	Pkg         string
	Gets        [][2]string // name, smt term
	Body        string
	File        string
	Label       string // optional: only for obligations containing this text
	ConfirmText string // optional: output text that also confirms (e.g. a crash inside a goroutine)
	Race        bool   // run the test under the race detector (a data race is the failing schedule)
}

func loadDrivers() []*replayDriver {
	files, _ := filepath.Glob(filepath.Join(verifDir, "replay_drivers", "*.tmpl"))
	var out []*replayDriver
	for _, f := range files {
		data, err := os.ReadFile(f)
		if err != nil {
			continue
		}
		parts := strings.SplitN(string(data), "\n---\n", 2)
		if len(parts) != 2 {
			continue
		}
		d := &replayDriver{Body: parts[1], File: f}
		for _, ln := range strings.Split(parts[0], "\n") {
			ln = strings.TrimSpace(strings.TrimPrefix(strings.TrimSpace(ln), "#"))
			switch {
			case strings.HasPrefix(ln, "key:"):
				d.Key = strings.TrimSpace(ln[4:])
			case strings.HasPrefix(ln, "pkg:"):
				d.Pkg = strings.TrimSpace(ln[4:])
			case strings.HasPrefix(ln, "label:"):
				d.Label = strings.TrimSpace(ln[6:])
			case strings.HasPrefix(ln, "confirm-text:"):
				d.ConfirmText = strings.TrimSpace(ln[13:])
			case strings.HasPrefix(ln, "race:"):
				d.Race = strings.TrimSpace(ln[5:]) == "true"
			case strings.HasPrefix(ln, "get "):
				kv := strings.SplitN(ln[4:], "=", 2)
				if len(kv) == 2 {
					d.Gets = append(d.Gets, [2]string{strings.TrimSpace(kv[0]), strings.TrimSpace(kv[1])})
				}
			}
		}
		out = append(out, d)
	}
	return out
}

// sexpr reader (just enough for get-value output)
func readSexprs(s string) []any {
	var stack [][]any
	cur := []any{}
	i := 0
	for i < len(s) {
		c := s[i]
		switch {
		case c == '(':
			stack = append(stack, cur)
			cur = []any{}
			i++
		case c == ')':
			if len(stack) == 0 {
				return cur
			}
			done := cur
			cur = stack[len(stack)-1]
			stack = stack[:len(stack)-1]
			cur = append(cur, done)
			i++
		case c == ' ' || c == '\n' || c == '\t' || c == '\r':
			i++
		case c == '|':
			j := strings.IndexByte(s[i+1:], '|')
			if j < 0 {
				return cur
			}
			cur = append(cur, s[i:i+j+2])
			i += j + 2
		case c == '"':
			j := strings.IndexByte(s[i+1:], '"')
			if j < 0 {
				return cur
			}
			cur = append(cur, s[i:i+j+2])
			i += j + 2
		default:
			j := i
			for j < len(s) && !strings.ContainsRune("() \n\t\r", rune(s[j])) {
				j++
			}
			cur = append(cur, s[i:j])
			i = j
		}
	}
	return cur
}

func sexprString(x any) string {
	switch v := x.(type) {
	case string:
		return v
	case []any:
		var ps []string
		for _, e := range v {
			ps = append(ps, sexprString(e))
		}
		return "(" + strings.Join(ps, " ") + ")"
	}
	return "?"
}

// modelValue renders an SMT value as a Go literal where possible (integers, booleans).
func modelValue(x any) string {
	switch v := x.(type) {
	case string:
		return v
	case []any:
		if len(v) == 2 && v[0] == "-" {
			return "-" + modelValue(v[1])
		}
	}
	return sexprString(x)
}

var tmplVar = regexp.MustCompile(`\{\{([A-Za-z0-9_]+)\}\}`)

func tryReplay(prog *Program, v violation) (bool, string) {
	key := v.obl
	if i := strings.Index(key, "#"); i >= 0 {
		key = key[:i]
	}
	var drv *replayDriver
	for _, d := range loadDrivers() {
		if d.Key == key && (d.Label == "" || strings.Contains(v.obl, d.Label)) {
			drv = d
			break
		}
	}
	if drv == nil {
		return false, "no replay driver for " + key + "; the model below is the verifier's counterexample (it may describe a loop-head or post-havoc state)\n"
	}
	if v.oblRef == nil && len(drv.Gets) > 0 {
		return false, "replay: obligation text unavailable\n"
	}
	if v.oblRef == nil {
		// a contract that no longer binds to the code: the driver needs no model, run its default instance
		dir, err := os.MkdirTemp("", "gbv-replay-")
		if err != nil {
			return false, "replay: " + err.Error() + "\n"
		}
		defer os.RemoveAll(dir)
		body := tmplVar.ReplaceAllStringFunc(drv.Body, func(m string) string {
			if m[2:len(m)-2] == "OBLIGATION" {
				return fmt.Sprintf("%q", v.obl)
			}
			return "0"
		})
		ok, testOut := runOverlayTest(prog.RepoDir, drv.Pkg, body, dir, drv.Race)
		rep := "replay driver: " + filepath.Base(drv.File) + " (default instance: the contract does not bind, there is no solver model)\n---- generated test ----\n" + body + "\n---- go test output ----\n" + testOut + "\n"
		if ok {
			rep += "RESULT: the violation was reproduced on the real code\n"
		} else {
			rep += "RESULT: the default instance did not reproduce a violation on the real code\n"
		}
		return ok, rep
	}
	// evaluate the requested terms in the model
	txt := obligationText(v.oblRef, true)
	var terms []string
	for _, g := range drv.Gets {
		terms = append(terms, g[1])
	}
	txt += "(get-value (" + strings.Join(terms, " ") + "))\n"
	dir, err := os.MkdirTemp("", "gbv-replay-")
	if err != nil {
		return false, "replay: " + err.Error() + "\n"
	}
	defer os.RemoveAll(dir)
	smt := filepath.Join(dir, "q.smt2")
	os.WriteFile(smt, []byte(txt), 0o644)
	var out string
	if v.oblRef.Status == "sat" {
		for _, c := range solvers {
			if c.name == v.oblRef.Solver {
				_, out = runOne(context.Background(), c, smt, 20, 0)
			}
		}
	}
	idx := strings.Index(out, "((")
	vals := map[string]string{}
	var report strings.Builder
	var parsed []any
	if !strings.HasPrefix(strings.TrimSpace(out), "sat") || idx < 0 {
		report.WriteString("no model available from the solver (" + v.oblRef.Status + "): the driver runs its default instance of the violated clause\n")
	} else {
		parsed = readSexprs(out[idx:])
	}
	if len(parsed) == 1 {
		if lst, ok := parsed[0].([]any); ok {
			for i, pair := range lst {
				if p, ok := pair.([]any); ok && len(p) == 2 && i < len(drv.Gets) {
					vals[drv.Gets[i][0]] = modelValue(p[1])
				}
			}
		}
	}
	fmt.Fprintf(&report, "replay driver: %s\nmodel values: %v\n", filepath.Base(drv.File), vals)
	body := tmplVar.ReplaceAllStringFunc(drv.Body, func(m string) string {
		name := m[2 : len(m)-2]
		if name == "OBLIGATION" {
			return fmt.Sprintf("%q", v.obl)
		}
		if val, ok := vals[name]; ok {
			return val
		}
		return "0"
	})
	ok, testOut := runOverlayTest(prog.RepoDir, drv.Pkg, body, dir, drv.Race)
	if !ok && drv.ConfirmText != "" && strings.Contains(testOut, drv.ConfirmText) {
		ok = true
	}
	report.WriteString("---- generated test ----\n" + body + "\n---- go test output ----\n" + testOut + "\n")
	if ok {
		report.WriteString("RESULT: the violation was reproduced on the real code\n")
	} else {
		report.WriteString("RESULT: the model input did not reproduce the violation on the real code\n")
	}
	return ok, report.String()
}

// runOverlayTest injects a test file into pkgDir (relative to the repo) with -overlay and runs it.
// Returns true when the output contains REPLAY-CONFIRMED.
func runOverlayTest(repoDir, pkgDir, src, tmp string, race bool) (bool, string) {
	testFile := filepath.Join(tmp, "zz_gbv_replay_test.go")
	os.WriteFile(testFile, []byte(src), 0o644)
	ov := map[string]map[string]string{"Replace": {filepath.Join(repoDir, pkgDir, "zz_gbv_replay_test.go"): testFile}}
	data, _ := json.Marshal(ov)
	ovFile := filepath.Join(tmp, "overlay.json")
	os.WriteFile(ovFile, data, 0o644)
	ctx, cancel := context.WithTimeout(context.Background(), 180*time.Second)
	defer cancel()
	args := []string{"test", "-overlay", ovFile, "-vet=off", "-count=1", "-timeout", "60s", "-run", "TestGbvReplay"}
	if race {
		args = append(args, "-race")
	}
	args = append(args, "./"+pkgDir)
	cmd := exec.CommandContext(ctx, "go", args...)
	cmd.Dir = repoDir
	cmd.Env = append(os.Environ(), "GOFLAGS=-mod=mod", "GOPROXY=off", "GOSUMDB=off", "GOTOOLCHAIN=local")
	var out bytes.Buffer
	cmd.Stdout = &out
	cmd.Stderr = &out
	_ = cmd.Run()
	o := out.String()
	if len(o) > 8000 {
		o = o[:8000] + "\n...[truncated]"
	}
	return strings.Contains(o, "REPLAY-CONFIRMED"), o
}
