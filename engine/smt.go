package main

import (
	"fmt"
	"go/types"
	"sort"
	"strings"
)

type Term = string
type Sort = string

// VC accumulates the SMT text for one function (or one lemma).
type VC struct {
	sorts    []string
	sortSeen map[string]bool
	funs     []string
	funSeen  map[string]bool
	body     []string
	tags     map[string]int // type string -> tag
	tagTypes []types.Type
	strlits  map[string]string
	nfresh   int
	structs  map[string]*types.Struct
	prog     *Program
}

const preludeCore = `(declare-sort Str 0)
(declare-datatypes ((Slice 0)) (((mkSlice (sarr Int) (soff Int) (sllen Int) (scap Int)))))
(declare-datatypes ((Iface 0)) (((mkIface (itag Int) (ival Int)))))
(define-fun godiv ((a Int) (b Int)) Int (ite (>= a 0) (div a b) (- (div (- a) b))))
(define-fun gomod ((a Int) (b Int)) Int (- a (* b (godiv a b))))
(declare-fun band (Int Int) Int)
(declare-fun bor (Int Int) Int)
(declare-fun bxor (Int Int) Int)
(declare-fun bshl (Int Int) Int)
(declare-fun bshr (Int Int) Int)
(declare-fun bandnot (Int Int) Int)
(declare-fun slen (Str) Int)
(declare-fun sat (Str Int) Int)
(declare-fun scat (Str Str) Str)
(declare-fun ssub (Str Int Int) Str)
(declare-fun slt (Str Str) Bool)
(declare-const str.empty Str)
(declare-fun fptr (Int Int) Int)
(declare-fun fptr.base (Int) Int)
(declare-fun fptr.fld (Int) Int)
(declare-fun str.of.int (Int) Str)
(declare-fun int.of.str (Str) Int)
(declare-fun bytes.str ((Array Int Int) Int Int) Str)
`

// quantified axioms, included only when the VC mentions the symbols they constrain
const preludeStr = `(assert (forall ((s Str)) (! (>= (slen s) 0) :pattern ((slen s)))))
(assert (= (slen str.empty) 0))
(assert (forall ((s Str)) (! (=> (= (slen s) 0) (= s str.empty)) :pattern ((slen s)))))
(assert (forall ((s Str) (i Int)) (! (and (<= 0 (sat s i)) (< (sat s i) 256)) :pattern ((sat s i)))))
(assert (forall ((a Str) (b Str)) (! (= (slen (scat a b)) (+ (slen a) (slen b))) :pattern ((scat a b)))))
(assert (forall ((a Str) (b Str) (i Int)) (! (= (sat (scat a b) i) (ite (< i (slen a)) (sat a i) (sat b (- i (slen a))))) :pattern ((sat (scat a b) i)))))
(assert (forall ((s Str) (a Int) (b Int)) (! (=> (and (<= 0 a) (<= a b) (<= b (slen s))) (= (slen (ssub s a b)) (- b a))) :pattern ((ssub s a b)))))
(assert (forall ((s Str) (a Int) (b Int) (i Int)) (! (=> (and (<= 0 a) (<= a b) (<= b (slen s)) (<= 0 i) (< i (- b a))) (= (sat (ssub s a b) i) (sat s (+ a i)))) :pattern ((sat (ssub s a b) i)))))
(assert (forall ((s Str)) (! (= (ssub s 0 (slen s)) s) :pattern ((ssub s 0 (slen s))))))
(assert (forall ((s Str) (a Int) (b Int) (c Int) (d Int)) (! (=> (and (<= 0 a) (<= a b) (<= b (slen s)) (<= 0 c) (<= c d) (<= d (- b a))) (= (ssub (ssub s a b) c d) (ssub s (+ a c) (+ a d)))) :pattern ((ssub (ssub s a b) c d)))))
(assert (forall ((a Str) (b Str)) (! (and (= (ssub (scat a b) 0 (slen a)) a) (= (ssub (scat a b) (slen a) (+ (slen a) (slen b))) b)) :pattern ((scat a b)))))
(assert (forall ((a Str)) (! (= (scat a str.empty) a) :pattern ((scat a str.empty)))))
(assert (forall ((a Str)) (! (= (scat str.empty a) a) :pattern ((scat str.empty a)))))
(assert (forall ((a Str)) (! (not (slt a a)) :pattern ((slt a a)))))
`
const preludeFptr = `(assert (forall ((r Int) (f Int)) (! (and (= (fptr.base (fptr r f)) r) (= (fptr.fld (fptr r f)) f) (=> (not (= r 0)) (not (= (fptr r f) 0)))) :pattern ((fptr r f)))))
`
const preludeItoa = `(assert (forall ((i Int)) (! (= (int.of.str (str.of.int i)) i) :pattern ((str.of.int i)))))
`
const preludeBytes = `(assert (forall ((a (Array Int Int)) (o Int) (n Int)) (! (=> (>= n 0) (= (slen (bytes.str a o n)) n)) :pattern ((bytes.str a o n)))))
(assert (forall ((a (Array Int Int)) (o Int) (n Int) (i Int)) (! (=> (and (<= 0 i) (< i n)) (= (sat (bytes.str a o n) i) (select a (+ o i)))) :pattern ((sat (bytes.str a o n) i)))))
`

func NewVC(p *Program) *VC {
	return &VC{sortSeen: map[string]bool{}, funSeen: map[string]bool{}, tags: map[string]int{}, strlits: map[string]string{}, structs: map[string]*types.Struct{}, prog: p}
}

func (vc *VC) fresh(prefix string) string {
	vc.nfresh++
	return fmt.Sprintf("|%s!%d|", prefix, vc.nfresh)
}

func q(name string) string {
	name = strings.ReplaceAll(name, "|", "!")
	name = strings.ReplaceAll(name, "\\", "!")
	return "|" + name + "|"
}

func (vc *VC) declFun(name string, decl string) {
	if vc.funSeen[name] {
		return
	}
	vc.funSeen[name] = true
	vc.funs = append(vc.funs, decl)
}

func (vc *VC) emit(s string) { vc.body = append(vc.body, s) }

func (vc *VC) declConst(name string, s Sort) {
	vc.emit(fmt.Sprintf("(declare-const %s %s)", name, s))
}

func (vc *VC) define(name string, s Sort, t Term) {
	// a declared constant plus an equation (not a define-fun macro): macros are expanded inside
	// quantifier patterns, where ite/and/not are not allowed
	vc.emit(fmt.Sprintf("(declare-const %s %s)", name, s))
	vc.emit(fmt.Sprintf("(assert (= %s %s))", name, t))
}

func (vc *VC) assume(t Term) { vc.emit("(assert " + t + ")") }

// Text renders the VC up to body index n (n<0: all).
func (vc *VC) Text(n int, extra string) string { return vc.TextSkip(n, extra, nil) }

// TextSkip renders the VC up to body index n without the body lines in skip.
func (vc *VC) TextSkip(n int, extra string, skip map[int]bool) string {
	var rest strings.Builder
	for _, s := range vc.sorts {
		rest.WriteString(s)
		rest.WriteByte('\n')
	}
	for _, s := range vc.funs {
		rest.WriteString(s)
		rest.WriteByte('\n')
	}
	if n < 0 || n > len(vc.body) {
		n = len(vc.body)
	}
	for i, s := range vc.body[:n] {
		if skip[i] {
			continue
		}
		rest.WriteString(s)
		rest.WriteByte('\n')
	}
	r := rest.String() + extra
	var sb strings.Builder
	sb.WriteString(preludeCore)
	if strings.Contains(r, "Str") || strings.Contains(r, "slen") || strings.Contains(r, "str.") {
		sb.WriteString(preludeStr)
	}
	if strings.Contains(r, "fptr") {
		sb.WriteString(preludeFptr)
	}
	if strings.Contains(r, "str.of.int") || strings.Contains(r, "int.of.str") {
		sb.WriteString(preludeItoa)
	}
	if strings.Contains(r, "bytes.str") {
		sb.WriteString(preludeBytes)
	}
	sb.WriteString(r[:len(r)-len(extra)])
	return sb.String()
}

func qualifier(p *types.Package) string { return p.Path() }

// typeKey names a type; all instantiations of a generic named type share one name (a generic body is
// verified once, for its own type parameters).
func typeKey(t types.Type) string {
	switch x := t.(type) {
	case *types.Named:
		if x.Obj().Pkg() == nil {
			return x.Obj().Name()
		}
		return x.Obj().Pkg().Path() + "." + x.Obj().Name()
	case *types.Alias:
		return typeKey(types.Unalias(x))
	case *types.Pointer:
		return "*" + typeKey(x.Elem())
	case *types.Slice:
		return "[]" + typeKey(x.Elem())
	case *types.Array:
		return fmt.Sprintf("[%d]%s", x.Len(), typeKey(x.Elem()))
	case *types.Map:
		return "map[" + typeKey(x.Key()) + "]" + typeKey(x.Elem())
	case *types.Chan:
		return "chan " + typeKey(x.Elem())
	case *types.Signature:
		// identical function types have one key, whatever their parameter names
		var ps, rs []string
		for i := 0; i < x.Params().Len(); i++ {
			ps = append(ps, typeKey(x.Params().At(i).Type()))
		}
		for i := 0; i < x.Results().Len(); i++ {
			rs = append(rs, typeKey(x.Results().At(i).Type()))
		}
		v := ""
		if x.Variadic() {
			v = "..."
		}
		return "func(" + strings.Join(ps, ",") + v + ")(" + strings.Join(rs, ",") + ")"
	}
	return types.TypeString(t, qualifier)
}

// sortOf maps a Go type to an SMT sort.
func (vc *VC) sortOf(t types.Type) Sort {
	if tp, ok := t.(*types.TypeParam); ok {
		_ = tp
		return "Iface"
	}
	switch u := t.Underlying().(type) {
	case *types.Basic:
		switch {
		case u.Info()&types.IsBoolean != 0:
			return "Bool"
		case u.Info()&types.IsString != 0:
			return "Str"
		case u.Info()&types.IsInteger != 0:
			return "Int"
		case u.Info()&types.IsFloat != 0:
			return "Real"
		case u.Kind() == types.UnsafePointer:
			return "Int"
		case u.Kind() == types.UntypedNil:
			return "Int"
		}
		return "Int"
	case *types.Pointer, *types.Map, *types.Chan, *types.Signature:
		return "Int"
	case *types.Slice:
		return "Slice"
	case *types.Interface:
		return "Iface"
	case *types.Struct:
		return vc.structSort(t, u)
	case *types.Array:
		return "(Array Int " + vc.sortOf(u.Elem()) + ")"
	case *types.Tuple:
		if u.Len() == 0 {
			return "Bool"
		}
		return "Tuple?"
	}
	return "Int"
}

func (vc *VC) structName(t types.Type) string {
	return "S." + typeKey(t)
}

func (vc *VC) structSort(t types.Type, st *types.Struct) Sort {
	name := vc.structName(t)
	sn := q(name)
	if vc.sortSeen[name] {
		return sn
	}
	vc.sortSeen[name] = true
	vc.structs[name] = st
	var fields []string
	for i := 0; i < st.NumFields(); i++ {
		f := st.Field(i)
		fields = append(fields, fmt.Sprintf("(%s %s)", vc.fieldAcc(t, i), vc.sortOf(f.Type())))
	}
	vc.sorts = append(vc.sorts, fmt.Sprintf("(declare-datatypes ((%s 0)) (((%s %s))))", sn, q("mk."+name), strings.Join(fields, " ")))
	return sn
}

func (vc *VC) fieldAcc(t types.Type, i int) string {
	st := t.Underlying().(*types.Struct)
	return q(vc.structName(t) + "." + st.Field(i).Name() + fmt.Sprintf("#%d", i))
}

func (vc *VC) mkStruct(t types.Type, fields []Term) Term {
	vc.sortOf(t)
	if len(fields) == 0 {
		return q("mk." + vc.structName(t))
	}
	return "(" + q("mk."+vc.structName(t)) + " " + strings.Join(fields, " ") + ")"
}

// zero value of a Go type
func (vc *VC) zero(t types.Type) Term {
	if _, ok := t.(*types.TypeParam); ok {
		return "(mkIface 0 0)"
	}
	switch u := t.Underlying().(type) {
	case *types.Basic:
		switch {
		case u.Info()&types.IsBoolean != 0:
			return "false"
		case u.Info()&types.IsString != 0:
			return "str.empty"
		case u.Info()&types.IsFloat != 0:
			return "0.0"
		}
		return "0"
	case *types.Slice:
		return "(mkSlice 0 0 0 0)"
	case *types.Interface:
		return "(mkIface 0 0)"
	case *types.Struct:
		var fs []Term
		for i := 0; i < u.NumFields(); i++ {
			fs = append(fs, vc.zero(u.Field(i).Type()))
		}
		return vc.mkStruct(t, fs)
	case *types.Array:
		return fmt.Sprintf("((as const (Array Int %s)) %s)", vc.sortOf(u.Elem()), vc.zero(u.Elem()))
	}
	return "0"
}

// tagOf gives the dynamic-type tag of a concrete Go type (positive, distinct per type).
func (vc *VC) tagOf(t types.Type) int {
	k := typeKey(t)
	if n, ok := vc.tags[k]; ok {
		return n
	}
	n := len(vc.tags) + 1
	vc.tags[k] = n
	vc.tagTypes = append(vc.tagTypes, t)
	return n
}

// box converts a value of Go type t to an interface payload (Int).
func (vc *VC) box(t types.Type, v Term) Term {
	s := vc.sortOf(t)
	if s == "Int" {
		return v
	}
	bn := q("box." + s)
	un := q("unbox." + s)
	vc.declFun("box."+s, fmt.Sprintf("(declare-fun %s (%s) Int)\n(declare-fun %s (Int) %s)\n(assert (forall ((x %s)) (! (= (%s (%s x)) x) :pattern ((%s x)))))", bn, s, un, s, s, un, bn, bn))
	return "(" + bn + " " + v + ")"
}

func (vc *VC) unbox(t types.Type, v Term) Term {
	s := vc.sortOf(t)
	if s == "Int" {
		return v
	}
	vc.box(t, "") // ensure declared
	return "(" + q("unbox."+s) + " " + v + ")"
}

// strLit returns the constant for a string literal, with its length and characters axiomatised.
func (vc *VC) strLit(s string) Term {
	if s == "" {
		return "str.empty"
	}
	if n, ok := vc.strlits[s]; ok {
		return n
	}
	n := q(fmt.Sprintf("str#%d:%.24q", len(vc.strlits), s))
	vc.strlits[s] = n
	var sb strings.Builder
	fmt.Fprintf(&sb, "(declare-const %s Str)\n(assert (= (slen %s) %d))", n, n, len(s))
	if len(s) <= 64 {
		for i := 0; i < len(s); i++ {
			fmt.Fprintf(&sb, "\n(assert (= (sat %s %d) %d))", n, i, s[i])
		}
	}
	// distinct from other literals
	var others []string
	for o, on := range vc.strlits {
		if o != s {
			others = append(others, on)
		}
	}
	sort.Strings(others)
	for _, on := range others {
		fmt.Fprintf(&sb, "\n(assert (not (= %s %s)))", n, on)
	}
	vc.funs = append(vc.funs, sb.String())
	return n
}

func and(ts ...Term) Term {
	var xs []Term
	for _, t := range ts {
		if t == "true" || t == "" {
			continue
		}
		xs = append(xs, t)
	}
	switch len(xs) {
	case 0:
		return "true"
	case 1:
		return xs[0]
	}
	return "(and " + strings.Join(xs, " ") + ")"
}

func or(ts ...Term) Term {
	var xs []Term
	for _, t := range ts {
		if t == "false" || t == "" {
			continue
		}
		if t == "true" {
			return "true"
		}
		xs = append(xs, t)
	}
	switch len(xs) {
	case 0:
		return "false"
	case 1:
		return xs[0]
	}
	return "(or " + strings.Join(xs, " ") + ")"
}

func not(t Term) Term {
	if t == "true" {
		return "false"
	}
	if t == "false" {
		return "true"
	}
	return "(not " + t + ")"
}

func implies(a, b Term) Term {
	if a == "true" {
		return b
	}
	if b == "true" {
		return "true"
	}
	return "(=> " + a + " " + b + ")"
}

func eq(a, b Term) Term       { return "(= " + a + " " + b + ")" }
func sel(a, i Term) Term      { return "(select " + a + " " + i + ")" }
func store(a, i, v Term) Term { return "(store " + a + " " + i + " " + v + ")" }
func ite(c, a, b Term) Term   { return "(ite " + c + " " + a + " " + b + ")" }
func app(f string, a ...Term) Term {
	if len(a) == 0 {
		return f
	}
	return "(" + f + " " + strings.Join(a, " ") + ")"
}
func num(n int64) Term {
	if n < 0 {
		return fmt.Sprintf("(- %d)", -n)
	}
	return fmt.Sprintf("%d", n)
}
