package main

import (
	"fmt"
	"go/token"
	"go/types"
	"strings"

	"golang.org/x/tools/go/ssa"
)

func (tr *trans) instr(in ssa.Instruction, st State) {
	bi := tr.curB.Index
	reach := tr.reach[bi]
	tr.atAsserts(in, st)
	tr.guardInstr(in, st)
	switch x := in.(type) {
	case *ssa.DebugRef:
		return
	case *ssa.Alloc:
		tr.alloc(x, st)
	case *ssa.Store:
		l := tr.locOf(x.Addr)
		tr.nilCheck(l, x.Pos(), "store")
		tr.store(st, l, tr.val(x.Val))
	case *ssa.UnOp:
		tr.unop(x, st)
	case *ssa.BinOp:
		tr.binop(x, st)
	case *ssa.Call:
		tr.call(x, x.Common(), st)
		tr.acquired(x.Common(), st)
	case *ssa.FieldAddr:
		// address computations are resolved at their uses; nil base is checked here like Go does
		l := tr.locOf(x.X)
		if l.kind == locObj {
			tr.panicCheck("nil-deref:"+tr.srcText(x.Pos())+":."+fieldName(x), not(eq(l.ref, "0")), x.Pos())
		}
	case *ssa.IndexAddr:
		switch u := x.X.Type().Underlying().(type) {
		case *types.Slice:
			s := tr.val(x.X)
			i := tr.val(x.Index)
			tr.panicCheck("index:"+tr.srcText(x.Pos()), and(app("<=", "0", i), app("<", i, "(sllen "+s+")")), x.Pos())
		case *types.Pointer:
			at := u.Elem().Underlying().(*types.Array)
			i := tr.val(x.Index)
			l := tr.locOf(x.X)
			if l.kind == locObj {
				tr.panicCheck("nil-deref:"+tr.srcText(x.Pos()), not(eq(l.ref, "0")), x.Pos())
			}
			tr.panicCheck("index:"+tr.srcText(x.Pos()), and(app("<=", "0", i), app("<", i, num(at.Len()))), x.Pos())
		}
	case *ssa.Field:
		tr.vc.sortOf(x.X.Type())
		tr.setVal(x, app(tr.vc.fieldAcc(x.X.Type(), x.Field), tr.val(x.X)))
	case *ssa.Index:
		switch u := x.X.Type().Underlying().(type) {
		case *types.Array:
			i := tr.val(x.Index)
			tr.panicCheck("index:"+tr.srcText(x.Pos()), and(app("<=", "0", i), app("<", i, num(u.Len()))), x.Pos())
			tr.setVal(x, sel(tr.val(x.X), i))
		case *types.Basic: // string
			i := tr.val(x.Index)
			s := tr.val(x.X)
			tr.panicCheck("index:"+tr.srcText(x.Pos()), and(app("<=", "0", i), app("<", i, app("slen", s))), x.Pos())
			tr.setVal(x, app("sat", s, i))
		default:
			tr.errorf("unsupported Index on %s", typeKey(x.X.Type()))
			tr.freshVal(x, st)
		}
	case *ssa.Slice:
		tr.slice(x, st)
	case *ssa.MakeSlice:
		ref := tr.newRef(st)
		et := x.Type().Underlying().(*types.Slice).Elem()
		h := tr.arrHeap(et)
		tr.setState(st, h, store(tr.getState(st, h), ref, fmt.Sprintf("((as const (Array Int %s)) %s)", tr.vc.sortOf(et), tr.vc.zero(et))), ref)
		ln, cp := tr.val(x.Len), tr.val(x.Cap)
		tr.panicCheck("makeslice:"+tr.srcText(x.Pos()), and(app("<=", "0", ln), app("<=", ln, cp)), x.Pos())
		tr.setVal(x, fmt.Sprintf("(mkSlice %s 0 %s %s)", ref, ln, cp))
	case *ssa.MakeMap:
		ref := tr.newRef(st)
		mt := x.Type().Underlying().(*types.Map)
		hd, hl := tr.mapHeap(mt, "dom"), tr.mapHeap(mt, "len")
		tr.mapHeap(mt, "val")
		tr.setState(st, hd, store(tr.getState(st, hd), ref, fmt.Sprintf("((as const (Array %s Bool)) false)", tr.vc.sortOf(mt.Key()))), ref)
		tr.setState(st, hl, store(tr.getState(st, hl), ref, "0"), ref)
		tr.setVal(x, ref)
	case *ssa.MakeChan:
		ref := tr.newRef(st)
		tr.setVal(x, ref)
	case *ssa.MakeInterface:
		t := x.X.Type()
		tr.setVal(x, fmt.Sprintf("(mkIface %d %s)", tr.vc.tagOf(t), tr.vc.box(t, tr.val(x.X))))
	case *ssa.MakeClosure:
		ref := tr.newRef(st)
		tr.setVal(x, ref)
		tr.closureMade(x, st)
	case *ssa.ChangeType:
		tr.setVal(x, tr.val(x.X))
	case *ssa.ChangeInterface:
		tr.setVal(x, tr.val(x.X))
	case *ssa.Convert:
		tr.convert(x, st)
	case *ssa.MultiConvert:
		tr.errorf("unsupported MultiConvert")
		tr.freshVal(x, st)
	case *ssa.SliceToArrayPointer:
		tr.errorf("unsupported SliceToArrayPointer")
		tr.freshVal(x, st)
	case *ssa.TypeAssert:
		tr.typeAssert(x, st)
	case *ssa.Extract:
		ts, ok := tr.tuples[x.Tuple]
		if !ok || x.Index >= len(ts) {
			tr.errorf("extract from untranslated tuple %s", x.Tuple.Name())
			tr.freshVal(x, st)
			return
		}
		tr.setVal(x, ts[x.Index])
	case *ssa.Lookup:
		tr.lookup(x, st)
	case *ssa.MapUpdate:
		tr.mapUpdate(x, st)
	case *ssa.Range:
		tr.rangeInit(x, st)
	case *ssa.Next:
		tr.rangeNext(x, st)
	case *ssa.If:
		c := tr.val(x.Cond)
		tn := q(fmt.Sprintf("edge.b%d.b%d", bi, tr.curB.Succs[0].Index))
		fn := q(fmt.Sprintf("edge.b%d.b%d", bi, tr.curB.Succs[1].Index))
		if tr.curB.Succs[0] == tr.curB.Succs[1] {
			tr.edgeCond[[2]int{bi, tr.curB.Succs[0].Index}] = reach
			return
		}
		tr.vc.define(tn, "Bool", and(reach, c))
		tr.vc.define(fn, "Bool", and(reach, not(c)))
		tr.edgeCond[[2]int{bi, tr.curB.Succs[0].Index}] = tn
		tr.edgeCond[[2]int{bi, tr.curB.Succs[1].Index}] = fn
	case *ssa.Jump:
	case *ssa.Return:
		tr.ret(x, st)
	case *ssa.Panic:
		if tr.fc != nil && tr.fc.NoPanic && !tr.fc.MayPanic {
			tr.oblige("nopanic", "panic:"+tr.srcText(x.Pos()), not(reach), x.Pos())
		}
	case *ssa.RunDefers:
		tr.runDefers(st)
	case *ssa.Defer:
		tr.deferCall(x, st)
	case *ssa.Go:
		tr.goStmt(x, st)
	case *ssa.Send:
		// a send is recorded in the ghost send history of the channel (no receiver is modelled)
		et := x.Chan.Type().Underlying().(*types.Chan).Elem()
		snN, snAt := tr.sentVars(et)
		ch := tr.val(x.Chan)
		nAll := tr.getState(st, snN)
		atAll := tr.getState(st, snAt)
		n := sel(nAll, ch)
		tr.setState(st, snAt, store(atAll, ch, store(sel(atAll, ch), n, tr.val(x.X))))
		tr.setState(st, snN, store(nAll, ch, app("+", n, "1")))
		tr.note("channel sends are recorded in a ghost history; blocking and the receiver are not modelled")
	case *ssa.Select:
		tr.warnf("select at %s modelled as arbitrary choice", tr.srcText(x.Pos()))
		name := q(x.Name())
		_ = name
		var ts []Term
		tup := x.Type().(*types.Tuple)
		for i := 0; i < tup.Len(); i++ {
			n := q(fmt.Sprintf("%s.%d", x.Name(), i))
			tr.vc.declConst(n, tr.vc.sortOf(tup.At(i).Type()))
			ts = append(ts, n)
		}
		tr.tuples[x] = ts
	default:
		tr.errorf("unsupported instruction %T at %s", in, tr.srcText(in.Pos()))
		if v, ok := in.(ssa.Value); ok {
			tr.freshVal(v, st)
		}
	}
}

func fieldName(x *ssa.FieldAddr) string {
	pt := x.X.Type().Underlying().(*types.Pointer)
	return pt.Elem().Underlying().(*types.Struct).Field(x.Field).Name()
}

func (tr *trans) newRef(st State) Term {
	ref := tr.vc.fresh("ref")
	tr.vc.define(ref, "Int", tr.getState(st, "$next"))
	if tr.curB != nil {
		tr.termBlock[ref] = tr.curB.Index
		tr.termFresh[ref] = true
	}
	tr.setState(st, "$next", app("+", ref, "1"))
	return ref
}

func (tr *trans) alloc(x *ssa.Alloc, st State) {
	ref := tr.newRef(st)
	tr.setVal(x, ref)
	et := x.Type().Underlying().(*types.Pointer).Elem()
	l := tr.locOf(x)
	tr.store(st, l, tr.vc.zero(et))
	tr.onAlloc(ref, et, st)
}

// onAlloc assumes the declared facts about fresh zero values (e.g. an empty strings.Builder has empty content).
func (tr *trans) onAlloc(ref Term, et types.Type, st State) {
	for _, oa := range tr.prog.CS.OnAlloc {
		env := &Env{tr: tr, vc: tr.vc, pkgPath: oa.PkgPath, st: st, old: st, vars: map[string]SV{}, lets: map[string]Expr{}, errs: &tr.errs}
		t, _, _ := env.resolveType(oa.Type)
		if t == nil || !types.Identical(t, et) {
			continue
		}
		env.vars["p"] = env.goSV(ref, types.NewPointer(et))
		tr.vc.assume(implies(tr.reach[tr.curB.Index], env.elabBool(oa.E)))
		tr.note("fresh zero value of " + typeKey(et) + " satisfies its declared onalloc fact")
	}
}

func (tr *trans) nilCheck(l *Loc, pos token.Pos, what string) {
	if l.kind == locObj {
		tr.panicCheck("nil-deref:"+tr.srcText(pos)+":"+what, not(eq(l.ref, "0")), pos)
	}
}

func (tr *trans) unop(x *ssa.UnOp, st State) {
	switch x.Op {
	case token.MUL:
		if fv, ok := x.X.(*ssa.FreeVar); ok && tr.immutableCapture(fv) {
			// a captured variable that is assigned once, before the closure is made, and never again: its
			// value is a constant of this activation (no callee can change it)
			sym := q("fv." + fv.Name() + ".val")
			tr.vc.declFun(sym, fmt.Sprintf("(declare-const %s %s)", sym, tr.vc.sortOf(x.Type())))
			tr.setVal(x, sym)
			if inv := tr.typeInv(sym, x.Type(), tr.entry, 0); inv != "true" {
				tr.vc.assume(inv)
			}
			// keep the cell consistent for specifications that read the variable through the heap
			l := tr.locOf(x.X)
			tr.vc.assume(eq(tr.load(st, l), sym))
			return
		}
		l := tr.locOf(x.X)
		tr.nilCheck(l, x.Pos(), "load")
		if l.kind == locGlobal {
			if _, isStored := tr.storedGlobals()[l.g]; !isStored {
				// global treated as constant
				obj, _ := l.g.Object().(*types.Var)
				if obj != nil {
					tr.setVal(x, tr.globalConst(obj))
					return
				}
			}
		}
		tr.setVal(x, tr.load(st, l))
		if inv := tr.typeInv(tr.vals[x], x.Type(), st, 0); inv != "true" {
			tr.vc.assume(inv)
		}
	case token.NOT:
		tr.setVal(x, not(tr.val(x.X)))
	case token.SUB:
		tr.setVal(x, "(- "+tr.val(x.X)+")")
	case token.ARROW:
		// channel receive: arbitrary value / ok, recorded in a ghost history of the channel variable
		tr.note("channel receives yield arbitrary values (no model of the sender); a ghost history records what was received")
		et := x.X.Type().Underlying().(*types.Chan).Elem()
		cnN, cnAt := tr.recvVars(et)
		ch := tr.val(x.X)
		vn := q(x.Name() + ".v")
		okn := q(x.Name() + ".ok")
		tr.vc.declConst(vn, tr.vc.sortOf(et))
		tr.vc.declConst(okn, "Bool")
		if inv := tr.typeInv(vn, et, st, 0); inv != "true" {
			tr.vc.assume(inv)
		}
		if !x.CommaOk {
			// a plain receive from a closed channel yields the zero value; we do not distinguish
			tr.vc.assume(okn)
		}
		// element invariant of the channel assumed by the contract (a contract of the producer)
		if tr.fc != nil {
			src := tr.sourceNameOf(x.X)
			for _, it := range tr.fc.Items {
				if it.Kind == "recvinv" && it.Name == src {
					env := tr.funcEnv(st)
					env.vars["elem"] = env.goSV(vn, et)
					tr.vc.assume(implies(okn, env.elabBool(it.E)))
					tr.note("values received from channel " + src + " in " + tr.key + " satisfy the declared element invariant (contract of the producer, assumed)")
				}
			}
		}
		nAll := tr.getState(st, cnN)
		atAll := tr.getState(st, cnAt)
		n := sel(nAll, ch)
		tr.setState(st, cnAt, ite(okn, store(atAll, ch, store(sel(atAll, ch), n, vn)), atAll))
		tr.setState(st, cnN, ite(okn, store(nAll, ch, app("+", n, "1")), nAll))
		if x.CommaOk {
			tr.tuples[x] = []Term{vn, okn}
			return
		}
		tr.vals[x] = vn
		tr.recordTerm(vn, x)
	case token.XOR:
		tr.freshVal(x, st)
	default:
		tr.errorf("unsupported unary op %s", x.Op)
		tr.freshVal(x, st)
	}
}

func (tr *trans) storedGlobals() map[*ssa.Global]bool {
	m := map[*ssa.Global]bool{}
	for _, b := range tr.fn.Blocks {
		for _, in := range b.Instrs {
			if s, ok := in.(*ssa.Store); ok {
				if g, ok := s.Addr.(*ssa.Global); ok {
					m[g] = true
				}
			}
		}
	}
	return m
}

func (tr *trans) binop(x *ssa.BinOp, st State) {
	a, b := tr.val(x.X), tr.val(x.Y)
	xt := x.X.Type()
	srt := tr.vc.sortOf(xt)
	arith := func(op string) {
		t := app(op, a, b)
		if lo, hi, ok := intRange(x.Type()); ok {
			if tr.fc != nil && tr.fc.Overflow {
				tr.oblige("overflow", tr.srcText(x.Pos())+":"+x.Op.String(), implies(tr.reach[tr.curB.Index], and(app("<=", lo, t), app("<=", t, hi))), x.Pos())
			} else if tr.fc != nil && tr.fc.Opts["wraps"] == "true" {
				// modular arithmetic
				if isUnsigned(x.Type()) {
					t = app("mod", t, app("+", hi, "1"))
				}
			} else {
				tr.note("machine integer arithmetic treated as mathematical (no wrap-around) outside functions marked 'overflow'")
			}
		}
		tr.setVal(x, t)
	}
	switch x.Op {
	case token.ADD:
		if srt == "Str" {
			tr.setVal(x, app("scat", a, b))
			return
		}
		arith("+")
	case token.SUB:
		arith("-")
	case token.MUL:
		arith("*")
	case token.QUO:
		tr.panicCheck("div-by-zero:"+tr.srcText(x.Pos()), not(eq(b, "0")), x.Pos())
		tr.setVal(x, app("godiv", a, b))
	case token.REM:
		tr.panicCheck("div-by-zero:"+tr.srcText(x.Pos()), not(eq(b, "0")), x.Pos())
		tr.setVal(x, app("gomod", a, b))
	case token.EQL, token.NEQ:
		var t Term
		if srt == "Iface" {
			// comparing interfaces: equal tags and payloads (payload comparison of boxed values is by box identity: approximation noted)
			t = eq(a, b)
		} else {
			t = eq(a, b)
		}
		if x.Op == token.NEQ {
			t = not(t)
		}
		tr.setVal(x, t)
	case token.LSS, token.LEQ, token.GTR, token.GEQ:
		op := map[token.Token]string{token.LSS: "<", token.LEQ: "<=", token.GTR: ">", token.GEQ: ">="}[x.Op]
		if srt == "Str" {
			switch op {
			case "<":
				tr.setVal(x, app("slt", a, b))
			case ">":
				tr.setVal(x, app("slt", b, a))
			case "<=":
				tr.setVal(x, not(app("slt", b, a)))
			case ">=":
				tr.setVal(x, not(app("slt", a, b)))
			}
			return
		}
		tr.setVal(x, app(op, a, b))
	case token.AND, token.OR, token.XOR, token.SHL, token.SHR, token.AND_NOT:
		if srt == "Bool" {
			switch x.Op {
			case token.AND:
				tr.setVal(x, and(a, b))
			case token.OR:
				tr.setVal(x, or(a, b))
			default:
				tr.setVal(x, not(eq(a, b)))
			}
			return
		}
		f := map[token.Token]string{token.AND: "band", token.OR: "bor", token.XOR: "bxor", token.SHL: "bshl", token.SHR: "bshr", token.AND_NOT: "bandnot"}[x.Op]
		tr.setVal(x, app(f, a, b))
		if inv := tr.typeInv(tr.vals[x], x.Type(), st, 0); inv != "true" {
			tr.vc.assume(inv)
		}
		tr.note("bitwise operators are uninterpreted functions")
	default:
		tr.errorf("unsupported binary op %s", x.Op)
		tr.freshVal(x, st)
	}
}

func (tr *trans) slice(x *ssa.Slice, st State) {
	pos := x.Pos()
	switch u := x.X.Type().Underlying().(type) {
	case *types.Slice:
		s := tr.val(x.X)
		lo := "0"
		if x.Low != nil {
			lo = tr.val(x.Low)
		}
		hi := "(sllen " + s + ")"
		if x.High != nil {
			hi = tr.val(x.High)
		}
		mx := "(scap " + s + ")"
		if x.Max != nil {
			mx = tr.val(x.Max)
		}
		tr.panicCheck("slice:"+tr.srcText(pos), and(app("<=", "0", lo), app("<=", lo, hi), app("<=", hi, mx), app("<=", mx, "(scap "+s+")")), pos)
		tr.setVal(x, fmt.Sprintf("(mkSlice (sarr %s) (+ (soff %s) %s) (- %s %s) (- %s %s))", s, s, lo, hi, lo, mx, lo))
	case *types.Basic: // string
		s := tr.val(x.X)
		lo := "0"
		if x.Low != nil {
			lo = tr.val(x.Low)
		}
		hi := app("slen", s)
		if x.High != nil {
			hi = tr.val(x.High)
		}
		tr.panicCheck("slice:"+tr.srcText(pos), and(app("<=", "0", lo), app("<=", lo, hi), app("<=", hi, app("slen", s))), pos)
		tr.setVal(x, app("ssub", s, lo, hi))
	case *types.Pointer: // *array
		at := u.Elem().Underlying().(*types.Array)
		l := tr.locOf(x.X)
		if l.kind != locObj {
			tr.errorf("slice of non-object array at %s", tr.srcText(pos))
			tr.freshVal(x, st)
			return
		}
		lo := "0"
		if x.Low != nil {
			lo = tr.val(x.Low)
		}
		hi := num(at.Len())
		if x.High != nil {
			hi = tr.val(x.High)
		}
		tr.panicCheck("slice:"+tr.srcText(pos), and(app("<=", "0", lo), app("<=", lo, hi), app("<=", hi, num(at.Len()))), pos)
		tr.setVal(x, fmt.Sprintf("(mkSlice %s %s (- %s %s) (- %d %s))", l.ref, lo, hi, lo, at.Len(), lo))
	default:
		tr.errorf("unsupported slice of %s", typeKey(x.X.Type()))
		tr.freshVal(x, st)
	}
}

func (tr *trans) convert(x *ssa.Convert, st State) {
	from, to := x.X.Type(), x.Type()
	fs, ts := tr.vc.sortOf(from), tr.vc.sortOf(to)
	v := tr.val(x.X)
	switch {
	case fs == "Int" && ts == "Int":
		// integer conversion: value preserved when in range (wraps otherwise)
		if lo, hi, ok := intRange(to); ok {
			flo, fhi, fok := intRange(from)
			if fok && rangeWithin(flo, fhi, lo, hi) {
				tr.setVal(x, v)
				return
			}
			if tr.fc != nil && tr.fc.Overflow {
				tr.oblige("overflow", "convert:"+tr.srcText(x.Pos()), implies(tr.reach[tr.curB.Index], and(app("<=", lo, v), app("<=", v, hi))), x.Pos())
				tr.setVal(x, v)
				return
			}
			// wrap: fresh value equal to v when v in range
			n := tr.freshVal(x, st)
			tr.vc.assume(implies(and(app("<=", lo, v), app("<=", v, hi)), eq(n, v)))
			return
		}
		tr.setVal(x, v)
	case fs == "Str" && ts == "Slice":
		// []byte(s): fresh array with the bytes of s
		ref := tr.newRef(st)
		et := to.Underlying().(*types.Slice).Elem()
		h := tr.arrHeap(et)
		arr := tr.vc.fresh("bytes")
		tr.vc.declConst(arr, "(Array Int Int)")
		tr.vc.assume(fmt.Sprintf("(forall ((i Int)) (! (=> (and (<= 0 i) (< i (slen %s))) (= (select %s i) (sat %s i))) :pattern ((select %s i))))", v, arr, v, arr))
		tr.setState(st, h, store(tr.getState(st, h), ref, arr), ref)
		tr.setVal(x, fmt.Sprintf("(mkSlice %s 0 (slen %s) (slen %s))", ref, v, v))
		if b, ok := et.Underlying().(*types.Basic); !ok || b.Kind() != types.Uint8 {
			tr.warnf("string to %s conversion: runes modelled as bytes", typeKey(to))
		}
	case fs == "Slice" && ts == "Str":
		et := from.Underlying().(*types.Slice).Elem()
		h := tr.getState(st, tr.arrHeap(et))
		n := tr.freshVal(x, st)
		tr.vc.assume(eq(app("slen", n), "(sllen "+v+")"))
		tr.vc.assume(fmt.Sprintf("(forall ((i Int)) (! (=> (and (<= 0 i) (< i (sllen %s))) (= (sat %s i) (select (select %s (sarr %s)) (+ (soff %s) i)))) :pattern ((sat %s i))))", v, n, h, v, v, n))
	case fs == "Int" && ts == "Str":
		// string(rune)
		tr.freshVal(x, st)
	case fs == ts:
		tr.setVal(x, v)
	case fs == "Int" && ts == "Real":
		tr.setVal(x, "(to_real "+v+")")
	case fs == "Real" && ts == "Int":
		tr.freshVal(x, st)
	default:
		tr.errorf("unsupported conversion %s -> %s", typeKey(from), typeKey(to))
		tr.freshVal(x, st)
	}
}

func rangeWithin(flo, fhi, lo, hi string) bool {
	order := map[string]int{"(- 9223372036854775808)": -64, "(- 2147483648)": -32, "(- 32768)": -16, "(- 128)": -8, "0": 0,
		"127": 7, "255": 8, "32767": 15, "65535": 16, "2147483647": 31, "4294967295": 32, "9223372036854775807": 63, "18446744073709551615": 64}
	return order[flo] >= order[lo] && order[fhi] <= order[hi]
}

func (tr *trans) typeAssert(x *ssa.TypeAssert, st State) {
	v := tr.val(x.X)
	at := x.AssertedType
	var ok, res Term
	if types.IsInterface(at) {
		// interface-to-interface: succeeds iff dynamic type implements; uninterpreted predicate of the tag
		pn := q("implements." + typeKey(at))
		tr.vc.declFun("implements."+typeKey(at), fmt.Sprintf("(declare-fun %s (Int) Bool)\n(assert (not (%s 0)))", pn, pn))
		ok = app(pn, "(itag "+v+")")
		// known implementing tags
		for i, t := range tr.vc.tagTypes {
			if types.Implements(t, at.Underlying().(*types.Interface)) {
				tr.vc.assume(app(pn, num(int64(i+1))))
			}
		}
		res = v
	} else {
		ok = eq("(itag "+v+")", num(int64(tr.vc.tagOf(at))))
		res = tr.vc.unbox(at, "(ival "+v+")")
	}
	if x.CommaOk {
		okn := q(x.Name() + ".ok")
		tr.vc.define(okn, "Bool", ok)
		rn := q(x.Name() + ".v")
		if types.IsInterface(at) {
			tr.vc.define(rn, tr.vc.sortOf(at), ite(okn, res, tr.vc.zero(at)))
		} else {
			tr.vc.define(rn, tr.vc.sortOf(at), ite(okn, res, tr.vc.zero(at)))
		}
		tr.tuples[x] = []Term{rn, okn}
		if inv := tr.typeInv(rn, at, st, 0); inv != "true" {
			tr.vc.assume(inv)
		}
		return
	}
	tr.panicCheck("typeassert:"+tr.srcText(x.Pos())+":.("+typeKey(at)+")", ok, x.Pos())
	tr.setVal(x, res)
	if inv := tr.typeInv(tr.vals[x], at, st, 0); inv != "true" {
		tr.vc.assume(inv)
	}
}

func (tr *trans) lookup(x *ssa.Lookup, st State) {
	switch u := x.X.Type().Underlying().(type) {
	case *types.Map:
		m := tr.val(x.X)
		k := tr.val(x.Index)
		dom := sel(sel(tr.getState(st, tr.mapHeap(u, "dom")), m), k)
		v := sel(sel(tr.getState(st, tr.mapHeap(u, "val")), m), k)
		// nil map lookups are allowed (empty domain)
		okT := and(not(eq(m, "0")), dom)
		if x.CommaOk {
			okn := q(x.Name() + ".ok")
			tr.vc.define(okn, "Bool", okT)
			rn := q(x.Name() + ".v")
			tr.vc.define(rn, tr.vc.sortOf(u.Elem()), ite(okn, v, tr.vc.zero(u.Elem())))
			tr.tuples[x] = []Term{rn, okn}
			if inv := tr.typeInv(rn, u.Elem(), st, 0); inv != "true" {
				tr.vc.assume(inv)
			}
			return
		}
		tr.setVal(x, ite(okT, v, tr.vc.zero(u.Elem())))
		if inv := tr.typeInv(tr.vals[x], u.Elem(), st, 0); inv != "true" {
			tr.vc.assume(inv)
		}
	case *types.Basic:
		i := tr.val(x.Index)
		s := tr.val(x.X)
		tr.panicCheck("index:"+tr.srcText(x.Pos()), and(app("<=", "0", i), app("<", i, app("slen", s))), x.Pos())
		tr.setVal(x, app("sat", s, i))
	default:
		tr.errorf("unsupported lookup")
		tr.freshVal(x, st)
	}
}

func (tr *trans) mapUpdate(x *ssa.MapUpdate, st State) {
	mt := x.Map.Type().Underlying().(*types.Map)
	m := tr.val(x.Map)
	k := tr.val(x.Key)
	v := tr.val(x.Value)
	tr.panicCheck("nil-map-write:"+tr.srcText(x.Pos()), not(eq(m, "0")), x.Pos())
	hd, hv, hl := tr.mapHeap(mt, "dom"), tr.mapHeap(mt, "val"), tr.mapHeap(mt, "len")
	dom := tr.getState(st, hd)
	was := sel(sel(dom, m), k)
	ln := tr.getState(st, hl)
	tr.setState(st, hl, store(ln, m, ite(was, sel(ln, m), app("+", sel(ln, m), "1"))), m)
	tr.setState(st, hd, store(dom, m, store(sel(dom, m), k, "true")), m)
	val := tr.getState(st, hv)
	tr.setState(st, hv, store(val, m, store(sel(val, m), k, v)), m)
}

// ---------------------------------------------------------------- range over maps and strings
//
// A map iterator is a ghost "seen" set: Next yields an arbitrary key of dom \ seen.

func (tr *trans) rangeInit(x *ssa.Range, st State) {
	switch x.X.Type().Underlying().(type) {
	case *types.Map:
		mt := x.X.Type().Underlying().(*types.Map)
		name := "iter." + x.Name() + ".seen"
		tr.stateSort[name] = "(Array " + tr.vc.sortOf(mt.Key()) + " Bool)"
		tr.setState(st, name, fmt.Sprintf("((as const (Array %s Bool)) false)", tr.vc.sortOf(mt.Key())))
		cn := "iter." + x.Name() + ".count"
		tr.stateSort[cn] = "Int"
		tr.setState(st, cn, "0")
		tr.vals[x] = tr.val(x.X)
	default:
		// string: position counter
		name := "iter." + x.Name() + ".pos"
		tr.stateSort[name] = "Int"
		tr.setState(st, name, "0")
		tr.vals[x] = tr.val(x.X)
	}
}

func (tr *trans) rangeNext(x *ssa.Next, st State) {
	rng := x.Iter.(*ssa.Range)
	tup := x.Type().(*types.Tuple)
	okn := q(x.Name() + ".ok")
	kn := q(x.Name() + ".k")
	vn := q(x.Name() + ".v")
	if x.IsString {
		s := tr.val(rng.X)
		pn := "iter." + rng.Name() + ".pos"
		pos := tr.getState(st, pn)
		tr.vc.define(okn, "Bool", app("<", pos, app("slen", s)))
		tr.vc.define(kn, "Int", pos)
		// the decoded rune and its width are functions of the string and the position
		tr.vc.declFun("utf8.rune", utf8Decl)
		tr.vc.define(vn, "Int", app("utf8.rune", s, pos))
		w := app("utf8.width", s, pos)
		tr.setState(st, pn, ite(okn, app("+", pos, w), pos))
		tr.tuples[x] = []Term{okn, kn, vn}
		tr.note("range over string: ASCII bytes are runes of width 1; other runes have width 1..4 and some value >= 128 (a function of string and position)")
		return
	}
	mt := rng.X.Type().Underlying().(*types.Map)
	m := tr.val(rng.X)
	sn := "iter." + rng.Name() + ".seen"
	cn := "iter." + rng.Name() + ".count"
	seen := tr.getState(st, sn)
	cnt := tr.getState(st, cn)
	dom := sel(tr.getState(st, tr.mapHeap(mt, "dom")), m)
	ln := sel(tr.getState(st, tr.mapHeap(mt, "len")), m)
	ks := tr.vc.sortOf(mt.Key())
	tr.vc.declConst(okn, "Bool")
	tr.vc.declConst(kn, ks)
	// ok iff some unseen key remains; count < len as the finite-cardinality link
	tr.vc.assume(eq(okn, and(not(eq(m, "0")), app("<", cnt, ln))))
	tr.vc.assume(implies(okn, and(sel(dom, kn), not(sel(seen, kn)))))
	tr.vc.assume(implies(not(okn), fmt.Sprintf("(forall ((k %s)) (! (=> (select %s k) (select %s k)) :pattern ((select %s k))))", ks, dom, seen, dom)))
	tr.vc.define(vn, tr.vc.sortOf(mt.Elem()), sel(sel(tr.getState(st, tr.mapHeap(mt, "val")), m), kn))
	if inv := tr.typeInv(kn, mt.Key(), st, 0); inv != "true" {
		tr.vc.assume(inv)
	}
	if inv := tr.typeInv(vn, mt.Elem(), st, 0); inv != "true" {
		tr.vc.assume(inv)
	}
	tr.setState(st, sn, ite(okn, store(seen, kn, "true"), seen))
	tr.setState(st, cn, ite(okn, app("+", cnt, "1"), cnt))
	_ = tup
	tr.tuples[x] = []Term{okn, kn, vn}
	tr.note("range over map: arbitrary iteration order through a ghost seen-set; map not modified during iteration is assumed unless the loop invariant says otherwise")
}

// ---------------------------------------------------------------- return

func (tr *trans) resultNames() []string {
	sig := tr.fn.Signature
	var names []string
	n := sig.Results().Len()
	for i := 0; i < n; i++ {
		r := sig.Results().At(i)
		name := r.Name()
		if name == "" || name == "_" {
			if i == 0 {
				name = "result"
			} else {
				name = fmt.Sprintf("result%d", i)
			}
		}
		names = append(names, name)
	}
	return names
}

func (tr *trans) ret(x *ssa.Return, st State) {
	tr.retCount++
	k := tr.retCount
	reach := tr.reach[tr.curB.Index]
	env := tr.funcEnv(st)
	sig := tr.fn.Signature
	names := tr.resultNames()
	for i, r := range x.Results {
		sv := env.goSV(tr.val(r), sig.Results().At(i).Type())
		env.vars[names[i]] = sv
		if i == 0 {
			env.vars["result"] = sv
		}
		env.vars[fmt.Sprintf("result%d", i)] = sv
		if i == len(x.Results)-1 && types.Identical(sig.Results().At(i).Type(), types.Universe.Lookup("error").Type()) {
			if _, taken := env.vars["err"]; !taken {
				env.vars["err"] = sv
			}
		}
	}
	line := tr.srcText(x.Pos())
	tr.cover(fmt.Sprintf("return%d@%s", k, line), reach)
	n := 0
	for _, it := range tr.fc.Items {
		switch it.Kind {
		case "let":
			env.lets[it.Name] = it.E
		case "ensures":
			n++
			label := it.Label
			if label == "" {
				label = fmt.Sprintf("%d", n)
			}
			tr.oblige("post", fmt.Sprintf("[%s]@ret%d", label, k), implies(reach, env.elabBool(it.E)), x.Pos())
		case "check":
			// a postcondition over the function's local variables at the return point (not visible to callers)
			n++
			label := it.Label
			if label == "" {
				label = fmt.Sprintf("%d", n)
			}
			cenv := *env
			blk := tr.curB
			cenv.lookup = func(name string) (SV, bool) { return tr.varAtEnd(blk, name, st) }
			var errs []string
			cenv.errs = &errs
			goal := cenv.elabBool(it.E)
			if len(errs) > 0 {
				// some local of the clause does not exist yet at this return: the clause must be vacuous here,
				// i.e. its antecedent must be false
				imp, ok := it.E.(*EBinary)
				goal = "false"
				okAny := false
				if ok && imp.Op == "==>" {
					// the antecedent is a conjunction: it is enough that one conjunct that can be stated here is false
					var conj []Expr
					var split func(e Expr)
					split = func(e Expr) {
						if b, isB := e.(*EBinary); isB && b.Op == "&&" {
							split(b.X)
							split(b.Y)
							return
						}
						conj = append(conj, e)
					}
					split(imp.X)
					var alts []Term
					for _, cj := range conj {
						var errs2 []string
						cenv.errs = &errs2
						t := cenv.elabBool(cj)
						if len(errs2) == 0 {
							alts = append(alts, not(t))
							okAny = true
						}
					}
					goal = or(alts...)
					// or: the clause holds here even without the conjuncts that cannot be stated yet
					var errs3 []string
					cenv.errs = &errs3
					cons := cenv.elabBool(imp.Y)
					if len(errs3) == 0 && len(alts) > 0 {
						var pos []Term
						for _, a := range alts {
							pos = append(pos, not(a))
						}
						goal = or(goal, implies(and(pos...), cons))
						okAny = true
					}
				}
				if !okAny {
					if ok && imp.Op == "==>" {
						// nothing of the antecedent can be stated at this return (it speaks about locals that do not
						// exist yet on this path): the clause does not apply here. It must apply somewhere, though -
						// checked once all returns are done (a misspelt local must not make a clause vacuous).
						if tr.checkNowhere == nil {
							tr.checkNowhere = map[string][]string{}
						}
						if _, seen := tr.checkNowhere[label]; !seen {
							tr.checkNowhere[label] = errs
						}
						continue
					}
					tr.errs = append(tr.errs, errs...)
					goal = "false"
				}
			}
			if tr.checkStated == nil {
				tr.checkStated = map[string]bool{}
			}
			tr.checkStated[label] = true
			tr.oblige("check", fmt.Sprintf("[%s]@ret%d", label, k), implies(reach, goal), x.Pos())
		}
	}
	tr.frameObligations(st, k, x.Pos())
	tr.lockObligations(st, k, x.Pos())
}

func (tr *trans) frameObligations(st State, k int, pos token.Pos) {
	if tr.fc == nil || !tr.fc.HasModifies || !tr.final {
		return
	}
	if tr.fc.Opts["trusted_frame"] == "true" {
		tr.note("the modifies clause (frame) of " + tr.key + " is assumed, not proved: its callees are over-approximated by havoc")
		return
	}
	reach := tr.reach[tr.curB.Index]
	env := tr.funcEnv(tr.entry)
	for _, it := range tr.fc.Items {
		if it.Kind == "let" {
			env.lets[it.Name] = it.E
		}
	}
	fp := tr.footprint(env, tr.fc.Modifies)
	var onlyThese map[string]bool
	if tr.fc.ModAll {
		if len(tr.fc.ModExcept) == 0 {
			return
		}
		// modifies * except X: only X is claimed to stay as it was
		onlyThese = tr.footprint(env, tr.fc.ModExcept).whole
	}
	next0 := tr.getState(tr.entry, "$next")
	for _, name := range sortedKeys(tr.known) {
		if name == "$next" || strings.HasPrefix(name, "call.") || strings.HasPrefix(name, "iter.") || strings.HasPrefix(name, "lock.") || strings.HasPrefix(name, "recv.") || strings.HasPrefix(name, "sent.") || strings.HasPrefix(name, "L.") || strings.HasPrefix(name, "defer.") {
			continue
		}
		if _, ok := tr.stateSort[name]; !ok {
			continue
		}
		if tr.sharedHeaps[name] {
			continue
		}
		if onlyThese != nil && !onlyThese[name] {
			continue
		}
		cur := tr.getState(st, name)
		old := tr.getState(tr.entry, name)
		if cur == old {
			continue
		}
		if fp.whole[name] {
			continue
		}
		var goal Term
		if strings.HasPrefix(name, "H.") || strings.HasPrefix(name, "A.") || strings.HasPrefix(name, "M.") {
			ex := "false"
			for _, r := range fp.at[name] {
				ex = or(ex, eq("r", r))
			}
			goal = fmt.Sprintf("(forall ((r Int)) (! (=> (and (> r 0) (< r %s) (not %s)) (= (select %s r) (select %s r))) :pattern ((select %s r))))", next0, ex, cur, old, cur)
		} else {
			goal = eq(cur, old)
		}
		tr.oblige("frame", fmt.Sprintf("%s@ret%d", name, k), implies(reach, goal), pos)
	}
}

type footprint struct {
	whole map[string]bool
	at    map[string][]Term
}

// footprint evaluates modifies expressions in env's state.
func (tr *trans) footprint(env *Env, mods []Expr) *footprint {
	fp := &footprint{whole: map[string]bool{}, at: map[string][]Term{}}
	for _, m := range mods {
		tr.footprintOf(env, m, fp)
	}
	return fp
}

func (tr *trans) footprintOf(env *Env, m Expr, fp *footprint) {
	switch x := m.(type) {
	case *EIdent:
		if x.Name == "nothing" {
			return
		}
		if g, ok := tr.prog.CS.Ghosts[x.Name]; ok {
			v := env.ghostVar(g)
			fp.whole[v.name] = true
			if v.kind == "gmap" {
				fp.whole[v.name+"$dom"] = true
			}
			return
		}
		if le, ok := env.lets[x.Name]; ok {
			tr.footprintOf(env, le, fp)
			return
		}
	case *ESel:
		v := env.elab(x.X)
		if v.kind == "pkg" {
			if g, ok := tr.prog.CS.Ghosts[x.Name]; ok && g.PkgPath == v.pkg.Path() {
				gv := env.ghostVar(g)
				fp.whole[gv.name] = true
				if gv.kind == "gmap" {
					fp.whole[gv.name+"$dom"] = true
				}
				return
			}
		}
		if v.ty != nil {
			if pt, ok := v.ty.Underlying().(*types.Pointer); ok {
				if stt, ok := pt.Elem().Underlying().(*types.Struct); ok {
					_, index, _ := types.LookupFieldOrMethod(pt.Elem(), true, nil, x.Name)
					if index == nil {
						if n := namedOf(pt.Elem()); n != nil {
							_, index, _ = types.LookupFieldOrMethod(pt.Elem(), true, n.Obj().Pkg(), x.Name)
						}
					}
					if len(index) == 1 {
						_ = stt
						h := tr.structHeap(pt.Elem(), index[0])
						fp.at[h] = append(fp.at[h], v.t)
						return
					}
				}
			}
		}
	case *EUnary:
		if x.Op == "*" {
			v := env.elab(x.X)
			if v.ty != nil {
				if pt, ok := v.ty.Underlying().(*types.Pointer); ok {
					if stt, ok := pt.Elem().Underlying().(*types.Struct); ok {
						for i := 0; i < stt.NumFields(); i++ {
							h := tr.structHeap(pt.Elem(), i)
							fp.at[h] = append(fp.at[h], v.t)
						}
						return
					}
					h := tr.cellHeap(pt.Elem())
					fp.at[h] = append(fp.at[h], v.t)
					return
				}
			}
		}
	case *ECall:
		if id, ok := x.Fn.(*EIdent); ok && len(x.Args) == 1 {
			switch id.Name {
			case "elems":
				v := env.elab(x.Args[0])
				if v.ty != nil {
					if s, ok := v.ty.Underlying().(*types.Slice); ok {
						h := tr.arrHeap(s.Elem())
						fp.at[h] = append(fp.at[h], "(sarr "+v.t+")")
						return
					}
				}
			case "mapof":
				v := env.elab(x.Args[0])
				if v.ty != nil {
					if mt, ok := v.ty.Underlying().(*types.Map); ok {
						for _, part := range []string{"dom", "val", "len"} {
							h := tr.mapHeap(mt, part)
							fp.at[h] = append(fp.at[h], v.t)
						}
						return
					}
				}
			case "allelems":
				// allelems(T): every backing array of []T
				te := TypeExpr{Kind: "name", Name: exprToQualified(x.Args[0])}
				if t, _, _ := env.resolveType(te); t != nil {
					fp.whole[tr.arrHeap(t)] = true
					return
				}
			case "allcells":
				// allcells(T): every variable cell of type T (captured or address-taken variables)
				te := TypeExpr{Kind: "name", Name: exprToQualified(x.Args[0])}
				if t, _, _ := env.resolveType(te); t != nil {
					fp.whole[tr.cellHeap(t)] = true
					return
				}
			case "all":
				// all(T.f) : the whole field heap ; all(T): cell heap
				if s, ok := x.Args[0].(*ESel); ok {
					// try T.f with T a type
					te := TypeExpr{Kind: "name", Name: exprToQualified(s.X)}
					if t, _, _ := env.resolveType(te); t != nil {
						if stt, ok := t.Underlying().(*types.Struct); ok {
							for i := 0; i < stt.NumFields(); i++ {
								if stt.Field(i).Name() == s.Name {
									fp.whole[tr.structHeap(t, i)] = true
									return
								}
							}
						}
					}
				}
			}
		}
	}
	tr.errorf("unsupported modifies expression %s", m.String())
}

func exprToQualified(e Expr) string {
	switch x := e.(type) {
	case *EIdent:
		return x.Name
	case *ESel:
		return exprToQualified(x.X) + "." + x.Name
	}
	return "?"
}

// recvVars: ghost receive histories, keyed by channel reference: count per channel and received values.
func (tr *trans) recvVars(et types.Type) (string, string) {
	n := "recv.n"
	at := "recv.at." + typeKey(et)
	tr.stateSort[n] = "(Array Int Int)"
	tr.stateSort[at] = "(Array Int (Array Int " + tr.vc.sortOf(et) + "))"
	return n, at
}

// sourceNameOf: the source-level variable name bound to an SSA value (through debug references).
func (tr *trans) sourceNameOf(v ssa.Value) string {
	if p, ok := v.(*ssa.Parameter); ok {
		return p.Name()
	}
	if u, ok := v.(*ssa.UnOp); ok {
		if fv, ok := u.X.(*ssa.FreeVar); ok {
			return fv.Name()
		}
		if al, ok := u.X.(*ssa.Alloc); ok {
			return al.Comment
		}
	}
	for _, b := range tr.fn.Blocks {
		for _, in := range b.Instrs {
			if d, ok := in.(*ssa.DebugRef); ok && d.X == v && !d.IsAddr {
				if obj := d.Object(); obj != nil {
					return obj.Name()
				}
			}
		}
	}
	return v.Name()
}

// sentVars: ghost send histories, keyed by channel reference.
func (tr *trans) sentVars(et types.Type) (string, string) {
	n := "sent.n"
	at := "sent.at." + typeKey(et)
	tr.stateSort[n] = "(Array Int Int)"
	tr.stateSort[at] = "(Array Int (Array Int " + tr.vc.sortOf(et) + "))"
	return n, at
}

// immutableCapture: the captured variable behind fv is stored exactly once in the enclosing function (its
// initialisation) and never in any closure.
func (tr *trans) immutableCapture(fv *ssa.FreeVar) bool {
	if tr.immCap == nil {
		tr.immCap = map[*ssa.FreeVar]bool{}
	}
	if v, ok := tr.immCap[fv]; ok {
		return v
	}
	res := false
	defer func() { tr.immCap[fv] = res }()
	parent := tr.fn.Parent()
	if parent == nil {
		return false
	}
	idx := -1
	for i, f := range tr.fn.FreeVars {
		if f == fv {
			idx = i
		}
	}
	if idx < 0 {
		return false
	}
	var alloc *ssa.Alloc
	for _, b := range parent.Blocks {
		for _, in := range b.Instrs {
			if mc, ok := in.(*ssa.MakeClosure); ok && mc.Fn == tr.fn && idx < len(mc.Bindings) {
				a, ok := mc.Bindings[idx].(*ssa.Alloc)
				if !ok {
					return false
				}
				alloc = a
			}
		}
	}
	if alloc == nil {
		return false
	}
	stores := 0
	for _, ref := range *alloc.Referrers() {
		switch r := ref.(type) {
		case *ssa.Store:
			if r.Addr == alloc {
				stores++
			} else {
				return false // address stored somewhere
			}
		case *ssa.UnOp, *ssa.DebugRef:
		case *ssa.MakeClosure:
			// every closure capturing it must not store through its free variable
			cf, ok := r.Fn.(*ssa.Function)
			if !ok {
				return false
			}
			for bi, bv := range r.Bindings {
				if bv != alloc || bi >= len(cf.FreeVars) {
					continue
				}
				for _, fr := range *cf.FreeVars[bi].Referrers() {
					switch fr.(type) {
					case *ssa.UnOp, *ssa.DebugRef:
					default:
						return false
					}
				}
			}
		default:
			return false
		}
	}
	res = stores == 1
	return res
}
