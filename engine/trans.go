package main

// SSA function -> verification conditions.

import (
	"fmt"
	"go/token"
	"go/types"
	"sort"
	"strings"

	"golang.org/x/tools/go/ssa"
)

type LocKind int

const (
	locObj LocKind = iota
	locField
	locElem
	locGlobal
)

type Loc struct {
	local string // non-empty: a non-escaping local variable (Alloc) kept outside the shared heap
	kind  LocKind
	ref   Term       // locObj
	ty    types.Type // type of the stored value
	base  *Loc       // locField, locElem
	idx   int        // locField
	ix    Term       // locElem
	g     *ssa.Global
}

type Obligation struct {
	Name      string
	Kind      string
	Fn        string
	Goal      Term
	BodyLen   int
	Pos       string
	ExpectSat bool // cover obligations
	Props     []string
	Skip      map[int]bool // body lines (assumed invariants) left out of this obligation's VC
	vc        *VC
	// results
	Status  string // unsat sat unknown timeout error
	Solver  string
	Seconds float64
	Output  string
}

type loopInfo struct {
	head     int
	blocks   map[int]bool
	backs    []int // pred blocks with back edges
	ord      int
	minPos   token.Pos
	modified map[string]bool
	spec     *LoopSpec
}

type outerTarget struct {
	v    ssa.Value
	sarr bool
}

// writeSet: where a loop writes a heap. unframed: some write could not be classified.
type writeSet struct {
	unframed bool
	outer    map[outerTarget]bool
}

type trans struct {
	prog          *Program
	vc            *VC
	fn            *ssa.Function
	fc            *FuncContract
	key           string
	vals          map[ssa.Value]Term
	tuples        map[ssa.Value][]Term
	stateSort     map[string]Sort
	known         map[string]bool
	in, out       map[int]State
	reach         map[int]Term
	edgeCond      map[[2]int]Term
	obls          []*Obligation
	errs          []string
	warns         []string
	loops         map[int]*loopInfo
	loopList      []*loopInfo
	order         []int
	cur           State
	curB          *ssa.BasicBlock
	entry         State
	final         bool // last pass: emit for real
	pure          map[string]*fnRef
	assumed       map[string]bool
	specRefs      map[string]*fnRef
	globals       map[string]string
	ncall         int
	nobl          map[string]int
	deferred      []*ssa.Defer
	retCount      int
	heapReads     int
	dispatched    map[string]bool
	axiomPkgs     map[string]bool
	termVal       map[Term]ssa.Value
	termBlock     map[Term]int
	termFresh     map[Term]bool
	loopWrites    map[int]map[string]*writeSet // by loop head, from the previous pass
	curWrites     map[int]map[string]*writeSet
	inHeadHavoc   bool
	localAllocs   map[*ssa.Alloc]bool
	heapRefs      map[string]string
	assertDone    map[string]bool
	checkNowhere  map[string][]string
	checkStated   map[string]bool
	invLines      map[int]map[string][]int
	extraCallVars map[string]SV
	curCallee     ssa.Value
	immCap        map[*ssa.FreeVar]bool
	sharedHeaps   map[string]bool
	assertBound   map[int]bool
	heapVal       map[string]types.Type // struct-valued heaps: the value type (for well-formedness of nested references)
	curCallArgs   []ssa.Value
	stableHeaps   map[string]bool
}

func (tr *trans) errorf(f string, a ...any) {
	msg := fmt.Sprintf(f, a...)
	for _, e := range tr.errs {
		if e == msg {
			return
		}
	}
	tr.errs = append(tr.errs, msg)
}

func (tr *trans) warnf(f string, a ...any) {
	msg := fmt.Sprintf(f, a...)
	for _, e := range tr.warns {
		if e == msg {
			return
		}
	}
	tr.warns = append(tr.warns, msg)
}

func (tr *trans) note(s string) { tr.assumed[s] = true }

// ---------------------------------------------------------------- state

func (tr *trans) initSym(name string) Term {
	s := q(name + "@0")
	srt, ok := tr.stateSort[name]
	if !ok {
		tr.errorf("internal: state var %s without sort", name)
		srt = "Int"
	}
	decl := fmt.Sprintf("(declare-const %s %s)", s, srt)
	// memory safety of the entry heap: every reference stored in it denotes an object that already exists
	n0 := q("$next@0")
	// (only for objects that exist at entry: what the heaps hold at references not yet allocated is defined
	// by the allocation - ours or, through its postcondition, a callee's)
	g := fmt.Sprintf("(or (and (< 0 r) (< r %s)) (and (< 0 (fptr.base r)) (< (fptr.base r) %s)))", n0, n0)
	switch tr.heapRefs[name] {
	case "ptr":
		decl += fmt.Sprintf("\n(assert (forall ((r Int)) (! (=> %s (and (<= 0 (select %s r)) (< (select %s r) %s))) :pattern ((select %s r)))))", g, s, s, n0, s)
	case "slice":
		decl += fmt.Sprintf("\n(assert (forall ((r Int)) (! (=> %s (and (<= 0 (sarr (select %s r))) (< (sarr (select %s r)) %s))) :pattern ((select %s r)))))", g, s, s, n0, s)
	case "arrptr":
		decl += fmt.Sprintf("\n(assert (forall ((r Int) (i Int)) (! (=> %s (and (<= 0 (select (select %s r) i)) (< (select (select %s r) i) %s))) :pattern ((select (select %s r) i)))))", g, s, s, n0, s)
	case "arrslice":
		decl += fmt.Sprintf("\n(assert (forall ((r Int) (i Int)) (! (=> %s (and (<= 0 (sarr (select (select %s r) i))) (< (sarr (select (select %s r) i)) %s))) :pattern ((select (select %s r) i)))))", g, s, s, n0, s)
	}
	if k := tr.heapRefs[name]; k == "struct" || k == "arrstruct" {
		decl += "\n(assert " + tr.structWF(name, s, g, n0) + ")"
	}
	if name != "$next" && tr.heapRefs[name] != "" {
		tr.vc.declFun("state:$next", fmt.Sprintf("(declare-const %s Int)", n0))
	}
	tr.vc.declFun("state:"+name, decl)
	return s
}

func refKind(t types.Type) string {
	switch t.Underlying().(type) {
	case *types.Pointer, *types.Map, *types.Chan:
		return "ptr"
	case *types.Slice:
		return "slice"
	}
	return ""
}

func (tr *trans) getState(st State, name string) Term {
	tr.known[name] = true
	tr.heapReads++
	if t, ok := st[name]; ok {
		return t
	}
	return tr.initSym(name)
}

func (tr *trans) setState(st State, name string, t Term, refs ...Term) {
	tr.known[name] = true
	if strings.HasPrefix(name, "H.") || strings.HasPrefix(name, "A.") || strings.HasPrefix(name, "M.") {
		tr.noteWrite(name, refs)
	}
	// name the new version to keep terms small
	sym := tr.vc.fresh(name)
	tr.vc.define(sym, tr.stateSort[name], t)
	st[name] = sym
}

func (tr *trans) havocState(st State, name string) Term {
	tr.known[name] = true
	if !tr.inHeadHavoc && (strings.HasPrefix(name, "H.") || strings.HasPrefix(name, "A.") || strings.HasPrefix(name, "M.")) {
		tr.noteWrite(name, nil)
	}
	sym := tr.vc.fresh(name + "~")
	tr.vc.declConst(sym, tr.stateSort[name])
	st[name] = sym
	return sym
}

// assumeHeapWF: memory safety of heaps whose content was just made arbitrary (loop head, callee): whatever an
// existing object holds denotes an object that exists now. Go guarantees this of every heap at all times; it
// is stated after a havoc because the havoc forgets it.
func (tr *trans) assumeHeapWF(st State, names []string) {
	nx := tr.getState(st, "$next")
	for _, name := range names {
		kind := tr.heapRefs[name]
		if kind == "" || name == "$next" {
			continue
		}
		s, ok := st[name]
		if !ok {
			continue
		}
		g := fmt.Sprintf("(or (and (< 0 r) (< r %s)) (and (< 0 (fptr.base r)) (< (fptr.base r) %s)))", nx, nx)
		switch kind {
		case "ptr":
			tr.vc.assume(fmt.Sprintf("(forall ((r Int)) (! (=> %s (and (<= 0 (select %s r)) (< (select %s r) %s))) :pattern ((select %s r))))", g, s, s, nx, s))
		case "slice":
			tr.vc.assume(fmt.Sprintf("(forall ((r Int)) (! (=> %s (and (<= 0 (sarr (select %s r))) (< (sarr (select %s r)) %s))) :pattern ((select %s r))))", g, s, s, nx, s))
		case "arrptr":
			tr.vc.assume(fmt.Sprintf("(forall ((r Int) (i Int)) (! (=> %s (and (<= 0 (select (select %s r) i)) (< (select (select %s r) i) %s))) :pattern ((select (select %s r) i))))", g, s, s, nx, s))
		case "arrslice":
			tr.vc.assume(fmt.Sprintf("(forall ((r Int) (i Int)) (! (=> %s (and (<= 0 (sarr (select (select %s r) i))) (< (sarr (select (select %s r) i)) %s))) :pattern ((select (select %s r) i))))", g, s, s, nx, s))
		case "struct", "arrstruct":
			tr.vc.assume(tr.structWF(name, s, g, nx))
		}
	}
}

func (tr *trans) structWF(name string, s Term, g Term, nx Term) Term {
	cell := "(select " + s + " r)"
	vars := "((r Int))"
	if tr.heapRefs[name] == "arrstruct" {
		cell = "(select (select " + s + " r) i)"
		vars = "((r Int) (i Int))"
	}
	var cs []Term
	for _, l := range tr.refLeaves(cell, tr.heapVal[name], 0) {
		cs = append(cs, app("<=", "0", l), app("<", l, nx))
	}
	return fmt.Sprintf("(forall %s (! (=> %s %s) :pattern (%s)))", vars, g, and(cs...), cell)
}

func (tr *trans) havocAll(st State) { tr.havocAllExcept(st, nil) }

func (tr *trans) havocAllExcept(st State, keep map[string]bool) {
	var havocked []string
	for _, name := range sortedKeys(tr.known) {
		if keep[name] {
			continue
		}
		if tr.stableHeaps[name] {
			continue
		}
		if strings.HasPrefix(name, "ghost.") {
			gn := strings.TrimSuffix(strings.TrimPrefix(name, "ghost."), "$dom")
			if g, ok := tr.prog.CS.Ghosts[gn]; ok && g.Stable && keep == nil {
				tr.note("uncontracted callees are assumed to leave the ghost state " + gn + " as they found it (e.g. to release the locks they take)")
				continue
			}
		}
		if name == "$next" {
			old := tr.getState(st, name)
			n := tr.havocState(st, name)
			tr.vc.assume(app(">=", n, old))
			continue
		}
		if strings.HasPrefix(name, "call.") || strings.HasPrefix(name, "lock.") || strings.HasPrefix(name, "recv.") || strings.HasPrefix(name, "sent.") || strings.HasPrefix(name, "L.") || strings.HasPrefix(name, "iter.") || strings.HasPrefix(name, "defer.") {
			continue
		}
		tr.havocState(st, name)
		havocked = append(havocked, name)
	}
	tr.assumeHeapWF(st, havocked)
}

func (tr *trans) structHeap(t types.Type, i int) string {
	st := t.Underlying().(*types.Struct)
	name := "H." + typeKey(t) + "." + st.Field(i).Name()
	tr.stateSort[name] = "(Array Int " + tr.vc.sortOf(st.Field(i).Type()) + ")"
	tr.heapRefs[name] = refKind(st.Field(i).Type())
	tr.noteHeapType(name, st.Field(i).Type(), false)
	return name
}

func (tr *trans) cellHeap(t types.Type) string {
	name := "H." + typeKey(t)
	tr.stateSort[name] = "(Array Int " + tr.vc.sortOf(t) + ")"
	tr.heapRefs[name] = refKind(t)
	tr.noteHeapType(name, t, false)
	return name
}

func (tr *trans) arrHeap(elem types.Type) string {
	name := "A." + typeKey(elem)
	tr.stateSort[name] = "(Array Int (Array Int " + tr.vc.sortOf(elem) + "))"
	if k := refKind(elem); k != "" {
		tr.heapRefs[name] = "arr" + k
	}
	tr.noteHeapType(name, elem, true)
	return name
}

// noteHeapType: struct values stored in a heap cell carry references too (q.Filters.Author): the heap is then
// of kind "struct"/"arrstruct" and its well-formedness speaks about every reference leaf of the value.
func (tr *trans) noteHeapType(name string, t types.Type, arr bool) {
	if tr.heapVal == nil {
		tr.heapVal = map[string]types.Type{}
	}
	if _, isStruct := t.Underlying().(*types.Struct); isStruct && tr.heapRefs[name] == "" {
		if len(tr.refLeaves("x", t, 0)) > 0 {
			tr.heapVal[name] = t
			if arr {
				tr.heapRefs[name] = "arrstruct"
			} else {
				tr.heapRefs[name] = "struct"
			}
		}
	}
}

// refLeaves: the reference-valued leaves (pointer/map/chan refs, slice array refs) of a value term of type t.
func (tr *trans) refLeaves(v Term, t types.Type, depth int) []Term {
	switch u := t.Underlying().(type) {
	case *types.Pointer, *types.Map, *types.Chan:
		return []Term{v}
	case *types.Slice:
		return []Term{"(sarr " + v + ")"}
	case *types.Struct:
		if depth > 3 {
			return nil
		}
		tr.vc.sortOf(t)
		var out []Term
		for i := 0; i < u.NumFields(); i++ {
			out = append(out, tr.refLeaves(app(tr.vc.fieldAcc(t, i), v), u.Field(i).Type(), depth+1)...)
		}
		return out
	}
	return nil
}

func (tr *trans) mapHeap(m *types.Map, part string) string {
	name := "M." + typeKey(m.Key()) + "." + typeKey(m.Elem()) + "." + part
	ks := tr.vc.sortOf(m.Key())
	switch part {
	case "dom":
		tr.stateSort[name] = "(Array Int (Array " + ks + " Bool))"
	case "val":
		tr.stateSort[name] = "(Array Int (Array " + ks + " " + tr.vc.sortOf(m.Elem()) + "))"
	case "len":
		tr.stateSort[name] = "(Array Int Int)"
	}
	return name
}

// ---------------------------------------------------------------- locations

func (tr *trans) localVar(name string, ty types.Type) string {
	n := "L." + name
	tr.stateSort[n] = tr.vc.sortOf(ty)
	return n
}

func (tr *trans) load(st State, l *Loc) Term {
	if l.kind == locObj && l.local != "" {
		if u, ok := l.ty.Underlying().(*types.Struct); ok {
			var fs []Term
			for i := 0; i < u.NumFields(); i++ {
				fs = append(fs, tr.getState(st, tr.localVar(l.local+"."+u.Field(i).Name(), u.Field(i).Type())))
			}
			return tr.vc.mkStruct(l.ty, fs)
		}
		return tr.getState(st, tr.localVar(l.local, l.ty))
	}
	if l.kind == locField && l.base.kind == locObj && l.base.local != "" {
		if u, ok := l.base.ty.Underlying().(*types.Struct); ok {
			return tr.getState(st, tr.localVar(l.base.local+"."+u.Field(l.idx).Name(), u.Field(l.idx).Type()))
		}
	}
	switch l.kind {
	case locObj:
		switch u := l.ty.Underlying().(type) {
		case *types.Struct:
			var fs []Term
			for i := 0; i < u.NumFields(); i++ {
				fs = append(fs, sel(tr.getState(st, tr.structHeap(l.ty, i)), l.ref))
			}
			return tr.vc.mkStruct(l.ty, fs)
		case *types.Array:
			return sel(tr.getState(st, tr.arrHeap(u.Elem())), l.ref)
		}
		return sel(tr.getState(st, tr.cellHeap(l.ty)), l.ref)
	case locField:
		if l.base.kind == locObj {
			if _, ok := l.base.ty.Underlying().(*types.Struct); ok {
				return sel(tr.getState(st, tr.structHeap(l.base.ty, l.idx)), l.base.ref)
			}
		}
		tr.vc.sortOf(l.base.ty)
		return app(tr.vc.fieldAcc(l.base.ty, l.idx), tr.load(st, l.base))
	case locElem:
		return sel(tr.load(st, l.base), l.ix)
	case locGlobal:
		return tr.getState(st, tr.globalVar(l.g))
	}
	return "0"
}

func (tr *trans) store(st State, l *Loc, v Term) {
	if l.kind == locObj && l.local != "" {
		if u, ok := l.ty.Underlying().(*types.Struct); ok {
			tr.vc.sortOf(l.ty)
			for i := 0; i < u.NumFields(); i++ {
				tr.setState(st, tr.localVar(l.local+"."+u.Field(i).Name(), u.Field(i).Type()), app(tr.vc.fieldAcc(l.ty, i), v))
			}
			return
		}
		tr.setState(st, tr.localVar(l.local, l.ty), v)
		return
	}
	if l.kind == locField && l.base.kind == locObj && l.base.local != "" {
		if u, ok := l.base.ty.Underlying().(*types.Struct); ok {
			tr.setState(st, tr.localVar(l.base.local+"."+u.Field(l.idx).Name(), u.Field(l.idx).Type()), v)
			return
		}
	}
	switch l.kind {
	case locObj:
		switch u := l.ty.Underlying().(type) {
		case *types.Struct:
			tr.vc.sortOf(l.ty)
			for i := 0; i < u.NumFields(); i++ {
				h := tr.structHeap(l.ty, i)
				tr.setState(st, h, store(tr.getState(st, h), l.ref, app(tr.vc.fieldAcc(l.ty, i), v)), l.ref)
			}
			return
		case *types.Array:
			h := tr.arrHeap(u.Elem())
			tr.setState(st, h, store(tr.getState(st, h), l.ref, v), l.ref)
			return
		}
		h := tr.cellHeap(l.ty)
		tr.setState(st, h, store(tr.getState(st, h), l.ref, v), l.ref)
	case locField:
		if l.base.kind == locObj {
			if _, ok := l.base.ty.Underlying().(*types.Struct); ok {
				h := tr.structHeap(l.base.ty, l.idx)
				tr.setState(st, h, store(tr.getState(st, h), l.base.ref, v), l.base.ref)
				return
			}
		}
		old := tr.load(st, l.base)
		stt := l.base.ty.Underlying().(*types.Struct)
		var fs []Term
		for i := 0; i < stt.NumFields(); i++ {
			if i == l.idx {
				fs = append(fs, v)
			} else {
				fs = append(fs, app(tr.vc.fieldAcc(l.base.ty, i), old))
			}
		}
		tr.store(st, l.base, tr.vc.mkStruct(l.base.ty, fs))
	case locElem:
		oa := tr.load(st, l.base)
		tr.store(st, l.base, store(oa, l.ix, v))
		// consequence of the store, stated from the old elements' side: every element read before has a
		// named counterpart after (so that existential facts about elements survive the write)
		na := tr.load(st, l.base)
		tr.vc.assume(fmt.Sprintf("(forall ((jj Int)) (! (= (select %s jj) (ite (= jj %s) %s (select %s jj))) :pattern ((select %s jj))))", na, l.ix, v, oa, oa))
	case locGlobal:
		tr.setState(st, tr.globalVar(l.g), v)
	}
}

func (tr *trans) globalVar(g *ssa.Global) string {
	name := "G." + g.Pkg.Pkg.Path() + "." + g.Name()
	tr.stateSort[name] = tr.vc.sortOf(g.Type().(*types.Pointer).Elem())
	return name
}

// globalConst: package-level variable treated as a constant (sentinel errors etc.)
func (tr *trans) globalConst(o *types.Var) Term {
	name := "G." + o.Pkg().Path() + "." + o.Name()
	sym := q(name + "@0")
	srt := tr.vc.sortOf(o.Type())
	tr.stateSort[name] = srt
	if _, ok := tr.globals[name]; !ok {
		decl := fmt.Sprintf("(declare-const %s %s)", sym, srt)
		if srt == "Iface" && types.Identical(o.Type(), types.Universe.Lookup("error").Type()) {
			decl += fmt.Sprintf("\n(assert (not (= (itag %s) 0)))", sym)
			for _, other := range sortedKeys(tr.globals) {
				if tr.globals[other] == "Iface" {
					decl += fmt.Sprintf("\n(assert (not (= %s %s)))", sym, q(other+"@0"))
				}
			}
			tr.note("package-level error variables (sentinels) are non-nil, pairwise distinct and never reassigned")
		}
		tr.vc.declFun("state:"+name, decl)
		tr.globals[name] = srt
	}
	return sym
}

// locOf resolves an address-valued SSA value to a location.
func (tr *trans) locOf(v ssa.Value) *Loc {
	switch x := v.(type) {
	case *ssa.FieldAddr:
		base := tr.locOf(x.X)
		st := base.ty.Underlying().(*types.Struct)
		return &Loc{kind: locField, base: base, idx: x.Field, ty: st.Field(x.Field).Type()}
	case *ssa.IndexAddr:
		switch u := x.X.Type().Underlying().(type) {
		case *types.Slice:
			s := tr.val(x.X)
			base := &Loc{kind: locObj, ref: "(sarr " + s + ")", ty: types.NewArray(u.Elem(), -1)}
			return &Loc{kind: locElem, base: base, ix: app("+", "(soff "+s+")", tr.val(x.Index)), ty: u.Elem()}
		case *types.Pointer:
			at := u.Elem().Underlying().(*types.Array)
			return &Loc{kind: locElem, base: tr.locOf(x.X), ix: tr.val(x.Index), ty: at.Elem()}
		}
	case *ssa.Global:
		return &Loc{kind: locGlobal, g: x, ty: x.Type().(*types.Pointer).Elem()}
	}
	p, ok := v.Type().Underlying().(*types.Pointer)
	if !ok {
		tr.errorf("locOf: %s is not a pointer", v.Name())
		return &Loc{kind: locObj, ref: "0", ty: types.Typ[types.Int]}
	}
	l := &Loc{kind: locObj, ref: tr.val(v), ty: p.Elem()}
	if al, ok := v.(*ssa.Alloc); ok && tr.isLocalAlloc(al) {
		l.local = al.Name()
	}
	return l
}

// isLocalAlloc: the address of the variable never escapes (only direct loads, stores to it, and field
// addresses used the same way), so calls cannot touch it and it lives outside the shared heap.
func (tr *trans) isLocalAlloc(a *ssa.Alloc) bool {
	if r, ok := tr.localAllocs[a]; ok {
		return r
	}
	var okAddr func(v ssa.Value, depth int) bool
	okAddr = func(v ssa.Value, depth int) bool {
		refs := v.Referrers()
		if refs == nil {
			return false
		}
		for _, in := range *refs {
			switch x := in.(type) {
			case *ssa.DebugRef:
			case *ssa.UnOp:
				if x.Op != token.MUL {
					return false
				}
			case *ssa.Store:
				if x.Val == v {
					return false
				}
			case *ssa.FieldAddr:
				if depth > 0 {
					return false // nested struct fields: keep in the shared heap (rare)
				}
				if !okAddr(x, depth+1) {
					return false
				}
			default:
				return false
			}
		}
		return true
	}
	et := a.Type().Underlying().(*types.Pointer).Elem()
	res := false
	switch et.Underlying().(type) {
	case *types.Array:
		res = false
	default:
		res = okAddr(a, 0)
	}
	tr.localAllocs[a] = res
	return res
}

// rootRef returns the reference term whose nil-ness guards the location, if any.
func (l *Loc) rootRef() Term {
	switch l.kind {
	case locObj:
		return l.ref
	case locField, locElem:
		return l.base.rootRef()
	}
	return ""
}

// ---------------------------------------------------------------- type invariants

func (tr *trans) typeInv(t Term, ty types.Type, st State, depth int) Term {
	if _, ok := ty.(*types.TypeParam); ok {
		return and(app(">=", "(itag "+t+")", "0"), implies(eq("(itag "+t+")", "0"), eq("(ival "+t+")", "0")))
	}
	switch u := ty.Underlying().(type) {
	case *types.Basic:
		if lo, hi, ok := intRange(ty); ok {
			return and(app("<=", lo, t), app("<=", t, hi))
		}
	case *types.Pointer, *types.Map, *types.Chan:
		return and(app("<=", "0", t), app("<", t, tr.getState(st, "$next")))
	case *types.Signature:
		return app("<=", "0", t)
	case *types.Slice:
		return and(app("<=", "0", "(sarr "+t+")"), app("<", "(sarr "+t+")", tr.getState(st, "$next")),
			app("<=", "0", "(soff "+t+")"), app("<=", "0", "(sllen "+t+")"), app("<=", "(sllen "+t+")", "(scap "+t+")"),
			app("<=", "(scap "+t+")", "9223372036854775807"),
			implies(eq("(sarr "+t+")", "0"), and(eq("(scap "+t+")", "0"), eq("(soff "+t+")", "0"))))
	case *types.Interface:
		return and(app(">=", "(itag "+t+")", "0"), implies(eq("(itag "+t+")", "0"), eq("(ival "+t+")", "0")))
	case *types.Struct:
		if depth > 2 {
			return "true"
		}
		tr.vc.sortOf(ty)
		var cs []Term
		for i := 0; i < u.NumFields(); i++ {
			cs = append(cs, tr.typeInv(app(tr.vc.fieldAcc(ty, i), t), u.Field(i).Type(), st, depth+1))
		}
		return and(cs...)
	}
	return "true"
}

// ---------------------------------------------------------------- values

func (tr *trans) constTerm(c *ssa.Const) Term {
	t := c.Type()
	if c.Value == nil {
		return tr.vc.zero(t)
	}
	env := &Env{tr: tr, vc: tr.vc, errs: &tr.errs}
	return env.constSV(c.Value, t).t
}

func (tr *trans) val(v ssa.Value) Term {
	switch x := v.(type) {
	case *ssa.Const:
		return tr.constTerm(x)
	case *ssa.Function:
		return num(int64(tr.vc.tagOf(types.NewPointer(types.NewNamed(types.NewTypeName(0, nil, "func:"+x.String(), nil), types.Typ[types.Int], nil)))) + 1000000)
	case *ssa.Global:
		n := q("addr." + tr.globalVar(x))
		tr.vc.declFun("addr."+tr.globalVar(x), fmt.Sprintf("(declare-const %s Int)\n(assert (> %s 0))", n, n))
		return n
	case *ssa.FieldAddr:
		// interior pointer as a value
		return app("fptr", tr.val(x.X), num(int64(x.Field)))
	case *ssa.Builtin:
		tr.errorf("builtin %s used as value", x.Name())
		return "0"
	}
	if t, ok := tr.vals[v]; ok {
		return t
	}
	tr.errorf("value %s (%T) has no translation in %s", v.Name(), v, tr.key)
	return "0"
}

func (tr *trans) setVal(v ssa.Value, t Term) {
	name := q(v.Name())
	tr.vc.define(name, tr.vc.sortOf(v.Type()), t)
	tr.vals[v] = name
	tr.recordTerm(name, v)
}

func (tr *trans) recordTerm(name Term, v ssa.Value) {
	tr.termVal[name] = v
	if in, ok := v.(ssa.Instruction); ok && in.Block() != nil {
		tr.termBlock[name] = in.Block().Index
	} else {
		tr.termBlock[name] = -1
	}
	switch v.(type) {
	case *ssa.Alloc, *ssa.MakeSlice, *ssa.MakeMap, *ssa.MakeClosure, *ssa.MakeChan:
		tr.termFresh[name] = true
	}
}

// noteWrite records, for every loop enclosing the current block, that heap `name` is written at `refs`.
func (tr *trans) noteWrite(name string, refs []Term) {
	if tr.curB == nil {
		return
	}
	for _, li := range tr.loopList {
		if !li.blocks[tr.curB.Index] {
			continue
		}
		m := tr.curWrites[li.head]
		if m == nil {
			m = map[string]*writeSet{}
			tr.curWrites[li.head] = m
		}
		ws := m[name]
		if ws == nil {
			ws = &writeSet{outer: map[outerTarget]bool{}}
			m[name] = ws
		}
		if len(refs) == 0 {
			ws.unframed = true
			continue
		}
		for _, r := range refs {
			base := r
			sarr := false
			if strings.HasPrefix(r, "(sarr ") && strings.HasSuffix(r, ")") {
				base = r[6 : len(r)-1]
				sarr = true
			}
			bi, ok := tr.termBlock[base]
			switch {
			case !ok:
				ws.unframed = true
			case bi < 0 || !li.blocks[bi]:
				if v, ok := tr.termVal[base]; ok {
					ws.outer[outerTarget{v, sarr}] = true
				} else {
					ws.unframed = true
				}
			case tr.termFresh[base]:
				// allocated inside the loop: not an object that existed before the loop
			default:
				ws.unframed = true
			}
		}
	}
}

func (tr *trans) freshVal(v ssa.Value, st State) Term {
	name := q(v.Name())
	tr.vc.declConst(name, tr.vc.sortOf(v.Type()))
	tr.vals[v] = name
	tr.recordTerm(name, v)
	if inv := tr.typeInv(name, v.Type(), st, 0); inv != "true" {
		tr.vc.assume(inv)
	}
	return name
}

// ---------------------------------------------------------------- CFG analysis

func (tr *trans) analyseCFG() {
	fn := tr.fn
	tr.loops = map[int]*loopInfo{}
	tr.loopList = nil
	// back edges: b -> h with h dominating b
	for _, b := range fn.Blocks {
		for _, s := range b.Succs {
			if s.Dominates(b) {
				li := tr.loops[s.Index]
				if li == nil {
					li = &loopInfo{head: s.Index, blocks: map[int]bool{s.Index: true}, modified: map[string]bool{}}
					tr.loops[s.Index] = li
					tr.loopList = append(tr.loopList, li)
				}
				li.backs = append(li.backs, b.Index)
				// natural loop body
				stack := []*ssa.BasicBlock{b}
				for len(stack) > 0 {
					n := stack[len(stack)-1]
					stack = stack[:len(stack)-1]
					if li.blocks[n.Index] {
						continue
					}
					li.blocks[n.Index] = true
					for _, p := range n.Preds {
						stack = append(stack, p)
					}
				}
			}
		}
	}
	for _, li := range tr.loopList {
		li.minPos = token.Pos(1 << 40)
		for bi := range li.blocks {
			for _, in := range fn.Blocks[bi].Instrs {
				if _, isDbg := in.(*ssa.DebugRef); isDbg {
					continue
				}
				if _, isPhi := in.(*ssa.Phi); isPhi {
					continue
				}
				if p := in.Pos(); p.IsValid() && p < li.minPos {
					li.minPos = p
				}
			}
		}
	}
	sort.Slice(tr.loopList, func(i, j int) bool { return tr.loopList[i].minPos < tr.loopList[j].minPos })
	for i, li := range tr.loopList {
		li.ord = i + 1
		if tr.fc != nil {
			li.spec = tr.fc.Loops[li.ord]
		}
	}
	// topological order ignoring back edges (reverse postorder)
	seen := map[int]bool{}
	var post []int
	var dfs func(b *ssa.BasicBlock)
	dfs = func(b *ssa.BasicBlock) {
		seen[b.Index] = true
		for _, s := range b.Succs {
			if s.Dominates(b) { // back edge
				continue
			}
			if !seen[s.Index] {
				dfs(s)
			}
		}
		post = append(post, b.Index)
	}
	if len(fn.Blocks) > 0 {
		dfs(fn.Blocks[0])
	}
	tr.order = nil
	for i := len(post) - 1; i >= 0; i-- {
		tr.order = append(tr.order, post[i])
	}
}

func (tr *trans) isBackEdge(from, to *ssa.BasicBlock) bool { return to.Dominates(from) }

// ---------------------------------------------------------------- obligations

func (tr *trans) oblige(kind, name string, goal Term, pos token.Pos) {
	if !tr.final {
		return
	}
	full := tr.key + "#" + kind + ":" + name
	tr.nobl[full]++
	if n := tr.nobl[full]; n > 1 {
		full = fmt.Sprintf("%s~%d", full, n)
	}
	o := &Obligation{Name: full, Kind: kind, Fn: tr.key, Goal: goal, BodyLen: len(tr.vc.body), vc: tr.vc}
	if pos.IsValid() {
		p := tr.prog.SSA.Fset.Position(pos)
		o.Pos = fmt.Sprintf("%s:%d", strings.TrimPrefix(p.Filename, tr.prog.RepoDir+"/"), p.Line)
	}
	if tr.fc != nil {
		o.Props = tr.fc.Props
	}
	tr.obls = append(tr.obls, o)
}

func (tr *trans) cover(name string, cond Term) {
	if !tr.final {
		return
	}
	o := &Obligation{Name: tr.key + "#cover:" + name, Kind: "cover", Fn: tr.key, Goal: cond, BodyLen: len(tr.vc.body), ExpectSat: true, vc: tr.vc}
	if tr.fc != nil {
		o.Props = tr.fc.Props
	}
	tr.obls = append(tr.obls, o)
}

// panicCheck: an implicit run-time check. Under `nopanic` it is an obligation, otherwise an assumption.
func (tr *trans) panicCheck(what string, cond Term, pos token.Pos) {
	if cond == "true" {
		return
	}
	g := implies(tr.reach[tr.curB.Index], cond)
	if tr.fc != nil && tr.fc.NoPanic {
		kinds := tr.fc.Opts["nopanic_kinds"]
		kind := what
		if i := strings.Index(what, ":"); i >= 0 {
			kind = what[:i]
		}
		if kinds == "" || strings.Contains(" "+kinds+" ", " "+kind+" ") {
			tr.oblige("nopanic", what, g, pos)
		} else {
			tr.note("only run-time checks of kind {" + kinds + "} are obligations in " + tr.key + "; the others are assumed to hold")
		}
	}
	tr.vc.assume(g)
}

// ---------------------------------------------------------------- main translation

func posOf(in ssa.Instruction) token.Pos {
	return in.Pos()
}

// srcText names a program point by the text of its source line (not by its line number), so that
// obligation names survive unrelated edits of the file.
func (tr *trans) srcText(pos token.Pos) string {
	if !pos.IsValid() {
		return ""
	}
	p := tr.prog.SSA.Fset.Position(pos)
	lines := tr.prog.fileLines(p.Filename)
	if p.Line-1 < len(lines) && p.Line >= 1 {
		s := strings.TrimSpace(lines[p.Line-1])
		if i := strings.Index(s, "//"); i > 0 {
			s = strings.TrimSpace(s[:i])
		}
		s = strings.Join(strings.Fields(s), " ")
		if len(s) > 70 {
			s = s[:70]
		}
		return "`" + s + "`"
	}
	return fmt.Sprintf("L%d", p.Line)
}

// funcEnv builds the environment for the function's own contract at a given state.
func (tr *trans) funcEnv(st State) *Env {
	env := &Env{tr: tr, vc: tr.vc, pkgPath: tr.fc.PkgPath, st: st, old: tr.entry, vars: map[string]SV{}, with: tr.fc.With, lets: map[string]Expr{}, errs: &tr.errs}
	for _, p := range tr.fn.Params {
		sv := env.goSV(tr.val(p), p.Type())
		env.vars[p.Name()] = sv
		env.vars[p.Name()+"0"] = sv
	}
	for _, fv := range tr.fn.FreeVars {
		if tr.fc.Pure[fv.Name()] {
			continue
		}
		// captured variable: pointer to the cell
		if pt, ok := fv.Type().Underlying().(*types.Pointer); ok && tr.immutableCapture(fv) {
			sym := q("fv." + fv.Name() + ".val")
			tr.vc.declFun(sym, fmt.Sprintf("(declare-const %s %s)", sym, tr.vc.sortOf(pt.Elem())))
			env.vars[fv.Name()] = env.goSV(sym, pt.Elem())
			env.vars[fv.Name()+"0"] = env.vars[fv.Name()]
		} else if pt, ok := fv.Type().Underlying().(*types.Pointer); ok {
			l := &Loc{kind: locObj, ref: tr.val(fv), ty: pt.Elem()}
			env.vars[fv.Name()] = env.goSV(tr.load(st, l), pt.Elem())
			env.vars[fv.Name()+"0"] = env.goSV(tr.load(tr.entry, l), pt.Elem())
		} else {
			env.vars[fv.Name()] = env.goSV(tr.val(fv), fv.Type())
		}
		// captured_<name>: the captured variable under a name that cannot collide with the keywords of a
		// specification (a closure capturing a variable called `result`)
		env.vars["captured_"+fv.Name()] = env.vars[fv.Name()]
	}
	for name, fr := range tr.pure {
		env.vars[name] = SV{kind: "fn", fn: fr, sort: "fn"}
	}
	env.addrOf = func(name string) (SV, bool) {
		for _, b := range tr.fn.Blocks {
			for _, in := range b.Instrs {
				if al, ok := in.(*ssa.Alloc); ok && al.Comment == name {
					if _, done := tr.vals[al]; done {
						return env.goSV(tr.val(al), al.Type()), true
					}
				}
			}
		}
		return SV{}, false
	}
	return env
}

func TranslateFunc(prog *Program, fn *ssa.Function, fc *FuncContract) *trans {
	var tr *trans
	known := map[string]bool{"$next": true}
	loopMods := map[int]map[string]bool{}
	loopWrites := map[int]map[string]*writeSet{}
	for pass := 0; pass < 6; pass++ {
		tr = &trans{prog: prog, fn: fn, fc: fc, key: funcKey(fn), vc: NewVC(prog), vals: map[ssa.Value]Term{}, tuples: map[ssa.Value][]Term{},
			stateSort: map[string]Sort{"$next": "Int"}, known: map[string]bool{}, in: map[int]State{}, out: map[int]State{}, reach: map[int]Term{},
			edgeCond: map[[2]int]Term{}, pure: map[string]*fnRef{}, assumed: map[string]bool{}, specRefs: map[string]*fnRef{}, globals: map[string]string{},
			nobl: map[string]int{}, dispatched: map[string]bool{}, termVal: map[Term]ssa.Value{}, termBlock: map[Term]int{}, termFresh: map[Term]bool{},
			loopWrites: loopWrites, curWrites: map[int]map[string]*writeSet{}, localAllocs: map[*ssa.Alloc]bool{}, heapRefs: map[string]string{}, assertBound: map[int]bool{}}
		for k := range known {
			tr.known[k] = true
		}
		tr.analyseCFG()
		for h, m := range loopMods {
			if li := tr.loops[h]; li != nil {
				for k := range m {
					li.modified[k] = true
				}
			}
		}
		tr.final = false
		tr.run()
		stable := len(tr.known) == len(known)
		for _, li := range tr.loopList {
			if loopMods[li.head] == nil {
				loopMods[li.head] = map[string]bool{}
			}
			for k := range li.modified {
				if !loopMods[li.head][k] {
					loopMods[li.head][k] = true
					stable = false
				}
			}
		}
		for k := range tr.known {
			known[k] = true
		}
		if !sameWrites(loopWrites, tr.curWrites) {
			stable = false
		}
		loopWrites = tr.curWrites
		if stable {
			break
		}
	}
	// final pass
	tr2 := &trans{prog: prog, fn: fn, fc: fc, key: funcKey(fn), vc: NewVC(prog), vals: map[ssa.Value]Term{}, tuples: map[ssa.Value][]Term{},
		stateSort: tr.stateSort, heapRefs: tr.heapRefs, heapVal: tr.heapVal, assertBound: map[int]bool{}, known: map[string]bool{}, in: map[int]State{}, out: map[int]State{}, reach: map[int]Term{},
		edgeCond: map[[2]int]Term{}, pure: map[string]*fnRef{}, assumed: map[string]bool{}, specRefs: map[string]*fnRef{}, globals: map[string]string{},
		nobl: map[string]int{}, dispatched: map[string]bool{}, termVal: map[Term]ssa.Value{}, termBlock: map[Term]int{}, termFresh: map[Term]bool{},
		loopWrites: loopWrites, curWrites: map[int]map[string]*writeSet{}, localAllocs: map[*ssa.Alloc]bool{}}
	for k := range known {
		tr2.known[k] = true
	}
	tr2.analyseCFG()
	for h, m := range loopMods {
		if li := tr2.loops[h]; li != nil {
			for k := range m {
				li.modified[k] = true
			}
		}
	}
	tr2.final = true
	tr2.run()
	return tr2
}

func (tr *trans) run() {
	fn := tr.fn
	if len(fn.Blocks) == 0 {
		tr.errorf("function %s has no body", tr.key)
		return
	}
	// entry state
	tr.entry = State{}
	for _, k := range sortedKeys(tr.known) {
		if _, ok := tr.stateSort[k]; ok {
			tr.entry[k] = tr.initSym(k)
		}
	}
	tr.vc.assume(app(">", tr.getState(tr.entry, "$next"), "0"))
	for _, k := range sortedKeys(tr.known) {
		if k == "recv.n" || k == "sent.n" {
			// the ghost receive history of every channel starts empty at function entry
			tr.vc.assume(eq(tr.getState(tr.entry, k), "((as const (Array Int Int)) 0)"))
		}
	}
	st := tr.entry.clone()
	// parameters
	for _, p := range fn.Params {
		name := q("p." + p.Name())
		tr.vc.declConst(name, tr.vc.sortOf(p.Type()))
		tr.vals[p] = name
		tr.recordTerm(name, p)
		if tr.fc.Pure[p.Name()] {
			tr.pure[p.Name()] = tr.pureParamRef(p)
			continue
		}
		if inv := tr.typeInv(name, p.Type(), st, 0); inv != "true" {
			tr.vc.assume(inv)
		}
	}
	for _, fv := range fn.FreeVars {
		name := q("fv." + fv.Name())
		tr.vc.declConst(name, tr.vc.sortOf(fv.Type()))
		tr.vals[fv] = name
		tr.recordTerm(name, fv)
		if tr.fc.Pure[fv.Name()] {
			tr.pure[fv.Name()] = tr.pureParamRef(fv)
			continue
		}
		if inv := tr.typeInv(name, fv.Type(), st, 0); inv != "true" {
			tr.vc.assume(inv)
		}
		if pt, ok := fv.Type().Underlying().(*types.Pointer); ok {
			tr.vc.assume(app(">", name, "0"))
			l := &Loc{kind: locObj, ref: name, ty: pt.Elem()}
			if inv := tr.typeInv(tr.load(st, l), pt.Elem(), st, 0); inv != "true" {
				tr.vc.assume(inv)
			}
		}
	}
	// receiver non-nil is not assumed (methods can be called on nil)
	// requires
	env := tr.funcEnv(st)
	for _, it := range tr.fc.Items {
		switch it.Kind {
		case "let":
			env.lets[it.Name] = it.E
		case "requires", "assume":
			if it.Kind == "requires" && tr.fc.Opts["total_post"] == "true" && tr.fc.Opts["pre_only_if"] != "" {
				// opt total_post: the postcondition is claimed for every call that returns, so the opt-in
				// preconditions (which only rule out a deliberate panic) are not assumed for the body
				continue
			}
			tr.vc.assume(env.elabBool(it.E))
		}
	}
	if len(tr.fc.Stable) > 0 {
		fp := tr.footprint(env, tr.fc.Stable)
		tr.stableHeaps = fp.whole
		for _, n := range sortedKeys(fp.whole) {
			tr.note("assumed: no callee of " + tr.key + " modifies " + n)
		}
	}
	tr.axioms()
	tr.cover("entry", "true")
	tr.reach[0] = "true"
	tr.in[0] = st
	for _, bi := range tr.order {
		tr.block(fn.Blocks[bi])
	}
}

// axioms emits the axioms of the function's own package; axioms of other packages are pulled in
// when one of their contracts or spec functions is used (needAxioms).
func (tr *trans) axioms() {
	pk := ""
	if tr.fc != nil {
		pk = tr.fc.PkgPath
	}
	tr.needAxioms(pk)
}

func (tr *trans) needAxioms(pkgPath string) {
	if tr.axiomPkgs == nil {
		tr.axiomPkgs = map[string]bool{}
	}
	if tr.axiomPkgs[pkgPath] {
		return
	}
	tr.axiomPkgs[pkgPath] = true
	for _, ax := range tr.prog.CS.Axioms {
		if ax.PkgPath != pkgPath {
			continue
		}
		env := &Env{tr: tr, vc: tr.vc, pkgPath: ax.PkgPath, st: State{}, old: State{}, vars: map[string]SV{}, lets: map[string]Expr{}, errs: &tr.errs}
		tr.vc.funs = append(tr.vc.funs, "(assert "+env.elabBool(ax.E)+")")
		tr.note("axiom " + ax.Name)
	}
}

func (tr *trans) block(b *ssa.BasicBlock) {
	bi := b.Index
	tr.curB = b
	li := tr.loops[bi]
	if bi != 0 {
		// reachability and state merge over non-back-edge predecessors
		var conds []Term
		var preds []int
		for i, p := range b.Preds {
			if tr.isBackEdge(p, b) {
				continue
			}
			c, ok := tr.edgeCond[[2]int{p.Index, bi}]
			if !ok {
				// predecessor not translated (unreachable from entry)
				continue
			}
			_ = i
			conds = append(conds, c)
			preds = append(preds, p.Index)
		}
		rn := q(fmt.Sprintf("reach.b%d", bi))
		tr.vc.define(rn, "Bool", or(conds...))
		tr.reach[bi] = rn
		st := State{}
		names := map[string]bool{}
		for _, p := range preds {
			for k := range tr.out[p] {
				names[k] = true
			}
		}
		for _, k := range sortedKeys(names) {
			var ts []Term
			same := true
			for _, p := range preds {
				t := tr.getState(tr.out[p], k)
				if len(ts) > 0 && t != ts[0] {
					same = false
				}
				ts = append(ts, t)
			}
			if len(ts) == 0 {
				continue
			}
			if same {
				st[k] = ts[0]
				continue
			}
			t := ts[len(ts)-1]
			for i := len(ts) - 2; i >= 0; i-- {
				t = ite(tr.edgeCond[[2]int{preds[i], bi}], ts[i], t)
			}
			sym := tr.vc.fresh(k + "@b" + fmt.Sprint(bi))
			tr.vc.define(sym, tr.stateSort[k], t)
			st[k] = sym
		}
		tr.in[bi] = st
	}
	st := tr.in[bi].clone()
	tr.cur = st
	if li != nil {
		// loop head: havoc what the loop modifies
		pre := tr.in[bi]
		nextPre := tr.getState(pre, "$next")
		tr.inHeadHavoc = true
		for _, k := range sortedKeys(li.modified) {
			if k == "$next" {
				old := tr.getState(st, k)
				n := tr.havocState(st, k)
				tr.vc.assume(app(">=", n, old))
				continue
			}
			hpre := tr.getState(pre, k)
			hnew := tr.havocState(st, k)
			// automatic loop frame: objects that existed before the loop and are not written by it keep their content
			if ws := tr.loopWrites[li.head][k]; ws != nil && !ws.unframed {
				var ds []Term
				okAll := true
				for tgt := range ws.outer {
					vt, ok := tr.vals[tgt.v]
					if !ok {
						if _, isParam := tgt.v.(*ssa.Parameter); !isParam {
							okAll = false
							break
						}
						vt = tr.val(tgt.v)
					}
					if tgt.sarr {
						vt = "(sarr " + vt + ")"
					}
					ds = append(ds, not(eq("r", vt)))
				}
				if okAll {
					sort.Strings(ds)
					tr.vc.assume(fmt.Sprintf("(forall ((r Int)) (! (=> %s (= (select %s r) (select %s r))) :pattern ((select %s r))))", and(append([]Term{app("<", "r", nextPre)}, ds...)...), hnew, hpre, hnew))
				}
			}
		}
		tr.inHeadHavoc = false
		tr.assumeHeapWF(st, sortedKeys(li.modified))
	}
	if li != nil {
		tr.out[-1000-bi] = st.clone()
	}
	// phis
	for _, in := range b.Instrs {
		phi, ok := in.(*ssa.Phi)
		if !ok {
			break
		}
		if li != nil {
			tr.freshVal(phi, st)
			continue
		}
		var t Term
		first := true
		for i := len(b.Preds) - 1; i >= 0; i-- {
			p := b.Preds[i]
			c, ok := tr.edgeCond[[2]int{p.Index, bi}]
			if !ok {
				continue
			}
			v := tr.val(phi.Edges[i])
			if first {
				t = v
				first = false
			} else {
				t = ite(c, v, t)
			}
		}
		if first {
			t = tr.vc.zero(phi.Type())
		}
		tr.setVal(phi, t)
	}
	if li != nil {
		tr.loopHeadAssume(li, st)
	}
	for _, in := range b.Instrs {
		if _, ok := in.(*ssa.Phi); ok {
			continue
		}
		tr.instr(in, st)
	}
	tr.out[bi] = st
	// successors: edge conditions, loop obligations
	for _, s := range b.Succs {
		if _, ok := tr.edgeCond[[2]int{bi, s.Index}]; !ok {
			tr.edgeCond[[2]int{bi, s.Index}] = tr.reach[bi]
		}
		if sl := tr.loops[s.Index]; sl != nil {
			back := tr.isBackEdge(b, s)
			tr.loopEdge(sl, b, s, st, back)
		}
	}
}

// varAt resolves a source-level variable name at the head of a loop.
// predIdx >= 0 selects the value flowing in from that predecessor of the head block.
func (tr *trans) varAt(h *ssa.BasicBlock, name string, predIdx int, st State) (SV, bool) {
	env := &Env{tr: tr, vc: tr.vc, errs: &tr.errs}
	for _, in := range h.Instrs {
		phi, ok := in.(*ssa.Phi)
		if !ok {
			break
		}
		if phi.Comment == name {
			if predIdx < 0 {
				return env.goSV(tr.val(phi), phi.Type()), true
			}
			return env.goSV(tr.val(phi.Edges[predIdx]), phi.Type()), true
		}
	}
	// a variable that lives in memory (address taken / captured): its current content, not the value of
	// some earlier assignment
	for d := h; d != nil; d = d.Idom() {
		for i := len(d.Instrs) - 1; i >= 0; i-- {
			if al, ok := d.Instrs[i].(*ssa.Alloc); ok && al.Comment == name {
				if _, done := tr.vals[al]; done {
					l := tr.locOf(al)
					return env.goSV(tr.load(st, l), l.ty), true
				}
			}
		}
	}
	for d := h.Idom(); d != nil; d = d.Idom() {
		for i := len(d.Instrs) - 1; i >= 0; i-- {
			switch x := d.Instrs[i].(type) {
			case *ssa.Phi:
				if x.Comment == name {
					return env.goSV(tr.val(x), x.Type()), true
				}
			case *ssa.DebugRef:
				if obj := x.Object(); obj != nil && !isFieldObj(obj) && obj.Name() == name {
					if x.IsAddr {
						l := tr.locOf(x.X)
						return env.goSV(tr.load(st, l), l.ty), true
					}
					if _, ok := tr.vals[x.X]; ok {
						return env.goSV(tr.val(x.X), x.X.Type()), true
					}
					if _, ok := x.X.(*ssa.Const); ok {
						return env.goSV(tr.val(x.X), x.X.Type()), true
					}
					if _, ok := x.X.(*ssa.Parameter); ok {
						return env.goSV(tr.val(x.X), x.X.Type()), true
					}
				}
			case *ssa.Alloc:
				if x.Comment == name {
					l := tr.locOf(x)
					return env.goSV(tr.load(st, l), l.ty), true
				}
			}
		}
	}
	return SV{}, false
}

// varAtEnd resolves a source variable at the end of block b (used by 'check' clauses at returns).
func (tr *trans) varAtEnd(b *ssa.BasicBlock, name string, st State) (SV, bool) {
	env := &Env{tr: tr, vc: tr.vc, errs: &tr.errs}
	if sv, ok := tr.rangeSliceByName(name); ok {
		return sv, true
	}
	for d := b; d != nil; d = d.Idom() {
		for i := len(d.Instrs) - 1; i >= 0; i-- {
			if al, ok := d.Instrs[i].(*ssa.Alloc); ok && al.Comment == name {
				if _, done := tr.vals[al]; done {
					l := tr.locOf(al)
					return env.goSV(tr.load(st, l), l.ty), true
				}
			}
		}
	}
	for d := b; d != nil; d = d.Idom() {
		for i := len(d.Instrs) - 1; i >= 0; i-- {
			switch x := d.Instrs[i].(type) {
			case *ssa.Phi:
				if x.Comment == name {
					return env.goSV(tr.val(x), x.Type()), true
				}
			case *ssa.DebugRef:
				if obj := x.Object(); obj != nil && !isFieldObj(obj) && obj.Name() == name && !x.IsAddr {
					if _, ok := tr.vals[x.X]; ok {
						return env.goSV(tr.val(x.X), x.X.Type()), true
					}
					switch x.X.(type) {
					case *ssa.Const, *ssa.Parameter:
						return env.goSV(tr.val(x.X), x.X.Type()), true
					}
				}
			}
		}
	}
	return SV{}, false
}

// rangeSliceOf: the slice (or array pointer) value a `for i, v := range x` loop iterates over.
func (tr *trans) rangeSliceOf(li *loopInfo) ssa.Value {
	h := tr.fn.Blocks[li.head]
	var phi *ssa.Phi
	for _, in := range h.Instrs {
		if p, ok := in.(*ssa.Phi); ok && p.Comment == "rangeindex" {
			phi = p
		}
	}
	if phi == nil {
		return nil
	}
	for bi := range li.blocks {
		for _, in := range tr.fn.Blocks[bi].Instrs {
			ia, ok := in.(*ssa.IndexAddr)
			if !ok {
				continue
			}
			inc, ok := ia.Index.(*ssa.BinOp)
			if ok && inc.Op == token.ADD && inc.X == phi {
				// the ranged-over value is evaluated once, before the loop (x[i] = ... in the body indexes a
				// value loaded inside the loop)
				if xi, isInstr := ia.X.(ssa.Instruction); isInstr && xi.Block() != nil && li.blocks[xi.Block().Index] {
					continue
				}
				return ia.X
			}
		}
	}
	return nil
}

func (tr *trans) rangeSliceByName(name string) (SV, bool) {
	// rangeindexN: the index variable of range loop N (for invariants of loops nested in it)
	if strings.HasPrefix(name, "rangeindex") && len(name) > len("rangeindex") {
		ord := 0
		fmt.Sscanf(name[len("rangeindex"):], "%d", &ord)
		for _, li := range tr.loopList {
			if li.ord != ord {
				continue
			}
			for _, in := range tr.fn.Blocks[li.head].Instrs {
				if p, ok := in.(*ssa.Phi); ok && p.Comment == "rangeindex" {
					if _, done := tr.vals[p]; done {
						env := &Env{tr: tr, vc: tr.vc, errs: &tr.errs}
						return env.intSV(tr.val(p)), true
					}
				}
			}
		}
		return SV{}, false
	}
	if !strings.HasPrefix(name, "rangeslice") || len(name) <= len("rangeslice") {
		return SV{}, false
	}
	ord := 0
	fmt.Sscanf(name[len("rangeslice"):], "%d", &ord)
	for _, li := range tr.loopList {
		if li.ord == ord {
			if v := tr.rangeSliceOf(li); v != nil {
				if _, done := tr.vals[v]; done {
					env := &Env{tr: tr, vc: tr.vc, errs: &tr.errs}
					return env.goSV(tr.val(v), v.Type()), true
				}
			}
		}
	}
	return SV{}, false
}

// rangeLenOf: for `for i := range x` the head tests rangeindex+1 < len(x) with len(x) taken before the loop.
func (tr *trans) rangeLenOf(h *ssa.BasicBlock, phi *ssa.Phi) ssa.Value {
	for _, in := range h.Instrs {
		b, ok := in.(*ssa.BinOp)
		if !ok || b.Op != token.LSS {
			continue
		}
		inc, ok := b.X.(*ssa.BinOp)
		if !ok || inc.Op != token.ADD || inc.X != phi {
			continue
		}
		if c, ok := inc.Y.(*ssa.Const); !ok || c.Int64() != 1 {
			continue
		}
		if yi, ok := b.Y.(ssa.Instruction); ok && yi.Block() != nil && !tr.loops[h.Index].blocks[yi.Block().Index] {
			return b.Y
		}
	}
	return nil
}

func (tr *trans) loopEnv(li *loopInfo, predIdx int, st State) *Env {
	env := tr.funcEnv(st)
	tr.currentParams(env)
	h := tr.fn.Blocks[li.head]
	for _, in := range h.Instrs {
		if phi, ok := in.(*ssa.Phi); ok && phi.Comment == "rangeindex" {
			if lv := tr.rangeLenOf(h, phi); lv != nil {
				if _, done := tr.vals[lv]; done {
					env.vars["rangelen"] = env.intSV(tr.val(lv))
				}
			}
		}
	}
	env.lookup = func(name string) (SV, bool) {
		if name == "rangepos" {
			// position of the string iterator feeding this loop
			for _, in := range h.Instrs {
				if nx, ok := in.(*ssa.Next); ok && nx.IsString {
					sn := "iter." + nx.Iter.(*ssa.Range).Name() + ".pos"
					tr.stateSort[sn] = "Int"
					return env.intSV(tr.getState(st, sn)), true
				}
			}
		}
		if name == "rangeslice" {
			if v := tr.rangeSliceOf(li); v != nil {
				if _, done := tr.vals[v]; done {
					return env.goSV(tr.val(v), v.Type()), true
				}
			}
		}
		if sv, ok := tr.rangeSliceByName(name); ok {
			return sv, true
		}
		if name == "iterseen" {
			// ghost set of the keys already visited by the map iterator feeding this loop
			for _, in := range h.Instrs {
				if nx, ok := in.(*ssa.Next); ok && !nx.IsString {
					rg := nx.Iter.(*ssa.Range)
					mt := rg.X.Type().Underlying().(*types.Map)
					sn := "iter." + rg.Name() + ".seen"
					srt := "(Array " + tr.vc.sortOf(mt.Key()) + " Bool)"
					tr.stateSort[sn] = srt
					return SV{t: tr.getState(st, sn), sort: srt, kind: "gset", kty: mt.Key()}, true
				}
			}
		}
		return tr.varAt(h, name, predIdx, st)
	}
	// names of phis shadow parameters
	for _, in := range h.Instrs {
		phi, ok := in.(*ssa.Phi)
		if !ok {
			break
		}
		if phi.Comment != "" {
			if v, ok := tr.varAt(h, phi.Comment, predIdx, st); ok {
				env.vars[phi.Comment] = v
			}
		}
	}
	// parameters reassigned before the loop: resolve through debug refs
	for _, p := range tr.fn.Params {
		if v, ok := tr.varAt(h, p.Name(), predIdx, st); ok {
			env.vars[p.Name()] = v
		}
	}
	return env
}

// loopItems: the user's loop items preceded by automatic invariants (range counters start at -1 and only grow).
func (tr *trans) loopItems(li *loopInfo) []Item {
	var items []Item
	h := tr.fn.Blocks[li.head]
	for _, in := range h.Instrs {
		phi, ok := in.(*ssa.Phi)
		if !ok {
			break
		}
		if phi.Comment == "rangeindex" {
			e, _ := ParseExpr("-1 <= rangeindex")
			items = append(items, Item{Kind: "invariant", Label: "auto-rangeindex", E: e, Src: "-1 <= rangeindex"})
			if tr.rangeLenOf(h, phi) != nil {
				e2, _ := ParseExpr("rangeindex < rangelen")
				items = append(items, Item{Kind: "invariant", Label: "auto-rangelen", E: e2, Src: "rangeindex < rangelen"})
			}
		}
	}
	if li.spec != nil {
		items = append(items, li.spec.Items...)
	}
	return items
}

func (tr *trans) loopHeadAssume(li *loopInfo, st State) {
	if li.spec == nil {
		if tr.final {
			tr.warnf("loop %d of %s has no invariant (only the havoc of modified state and automatic frames are assumed)", li.ord, tr.key)
		}
	}
	if len(tr.loopItems(li)) == 0 {
		return
	}
	env := tr.loopEnv(li, -1, st)
	if tr.fc != nil {
		for _, it := range tr.fc.Items {
			if it.Kind == "let" {
				env.lets[it.Name] = it.E
			}
		}
	}
	for _, it := range tr.loopItems(li) {
		switch it.Kind {
		case "let":
			env.lets[it.Name] = it.E
		case "invariant", "assume":
			if tr.invLines == nil {
				tr.invLines = map[int]map[string][]int{}
			}
			if tr.invLines[li.ord] == nil {
				tr.invLines[li.ord] = map[string][]int{}
			}
			tr.invLines[li.ord][it.Label] = append(tr.invLines[li.ord][it.Label], len(tr.vc.body))
			tr.vc.assume(implies(tr.reach[li.head], env.elabBool(it.E)))
		}
	}
}

func (tr *trans) loopEdge(li *loopInfo, from, head *ssa.BasicBlock, st State, back bool) {
	// pass bookkeeping: which state variables does the loop modify?
	if back {
		hin := tr.in[li.head]
		for k := range tr.known {
			if _, ok := tr.stateSort[k]; !ok {
				continue
			}
			a := tr.getState(st, k)
			b := tr.getState(hin, k)
			if a != b && !li.modified[k] {
				li.modified[k] = true
			}
		}
	}
	if len(tr.loopItems(li)) == 0 || !tr.final {
		return
	}
	predIdx := -1
	for i, p := range head.Preds {
		if p == from {
			predIdx = i
		}
	}
	env := tr.loopEnv(li, predIdx, st)
	for _, it := range tr.fc.Items {
		if it.Kind == "let" {
			env.lets[it.Name] = it.E
		}
	}
	ec := tr.edgeCond[[2]int{from.Index, head.Index}]
	n := 0
	for _, it := range tr.loopItems(li) {
		switch it.Kind {
		case "let":
			env.lets[it.Name] = it.E
		case "invariant":
			n++
			label := it.Label
			if label == "" {
				label = fmt.Sprintf("%d", n)
			}
			kind := "inv-init"
			if back {
				kind = "inv-pres"
			}
			tr.oblige(kind, fmt.Sprintf("loop%d[%s]@b%d", li.ord, label, from.Index), implies(ec, env.elabBool(it.E)), head.Instrs[0].Pos())
			// opt inv_core=a,b,c: the preservation of one labelled invariant is proved from the core invariants
			// and itself only (fewer hypotheses: sound, and it keeps the quantifier instantiation small)
			if core := tr.fc.Opts["inv_core"]; back && core != "" && it.Label != "" && len(tr.obls) > 0 {
				keep := map[string]bool{it.Label: true, "auto-rangeindex": true, "auto-rangelen": true}
				for _, c := range strings.Split(core, ",") {
					keep[strings.TrimSpace(c)] = true
				}
				o := tr.obls[len(tr.obls)-1]
				for lab, idxs := range tr.invLines[li.ord] {
					if lab == "" || keep[lab] {
						continue
					}
					if o.Skip == nil {
						o.Skip = map[int]bool{}
					}
					for _, ix := range idxs {
						o.Skip[ix] = true
					}
				}
			}
		case "decreases":
			if back {
				// variant: value at the back edge is smaller than at the head and bounded below
				henv := tr.loopEnv(li, -1, tr.headState(li))
				for k, v := range env.lets {
					henv.lets[k] = v
				}
				hv := henv.elab(it.E)
				nv := env.elab(it.E)
				tr.oblige("decreases", fmt.Sprintf("loop%d@b%d", li.ord, from.Index), implies(ec, and(app("<", nv.t, hv.t), app(">=", hv.t, "0"))), head.Instrs[0].Pos())
			}
		}
	}
}

func (tr *trans) headState(li *loopInfo) State {
	// the state right after the havoc at the head is the in-state of the head's instructions;
	// we keep it in tr.headStates
	if s, ok := tr.out[-1000-li.head]; ok {
		return s
	}
	return tr.in[li.head]
}

func sameWrites(a, b map[int]map[string]*writeSet) bool {
	if len(a) != len(b) {
		return false
	}
	for h, ma := range a {
		mb, ok := b[h]
		if !ok || len(ma) != len(mb) {
			return false
		}
		for k, wa := range ma {
			wb, ok := mb[k]
			if !ok || wa.unframed != wb.unframed || len(wa.outer) != len(wb.outer) {
				return false
			}
			for t := range wa.outer {
				if !wb.outer[t] {
					return false
				}
			}
		}
	}
	return true
}

// isFieldObj: the object of a debug reference is a struct field (a selector expression x.f is recorded under the
// field's object); a field must never be taken for a local variable of the same name.
func isFieldObj(o types.Object) bool {
	v, ok := o.(*types.Var)
	return ok && v.IsField()
}

// currentParams: a parameter that the body assigns (Go parameters are ordinary variables) denotes, at a program
// point - in an assertion or a loop invariant -, its current value; `name0` keeps the entry value. The binding of
// such a parameter is removed from env so that the name resolves like a local variable.
func (tr *trans) currentParams(env *Env) {
	for _, p := range tr.fn.Params {
		obj := p.Object()
		if obj == nil {
			continue
		}
		reassigned := false
		for _, b := range tr.fn.Blocks {
			for _, in := range b.Instrs {
				if d, ok := in.(*ssa.DebugRef); ok && !d.IsAddr && d.Object() == obj && d.X != ssa.Value(p) {
					reassigned = true
				}
			}
		}
		if reassigned {
			delete(env.vars, p.Name())
		}
	}
}
