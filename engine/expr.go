package main

// Specification expression language: AST and parser.
//
// Go-like expressions extended with
//   forall x T, y T :: e      exists x T :: e
//   a ==> b   (right assoc, lowest precedence below ?:)   a <==> b
//   c ? a : b
//   old(e)    typeof(e)   type[T]   e.(T)
//   x in m    (ghost map / set membership)
//   chained comparisons  0 <= k < n

import (
	"fmt"
	"strconv"
	"strings"
	"unicode"
)

type Expr interface{ String() string }

type (
	EIdent struct{ Name string }
	EInt   struct{ V string }
	EStr   struct{ V string }
	EBool  struct{ V bool }
	ENil   struct{}
	EUnary struct {
		Op string
		X  Expr
	}
	EBinary struct {
		Op   string
		X, Y Expr
	}
	ECond  struct{ C, A, B Expr }
	EQuant struct {
		Forall bool
		Vars   []Binder
		Body   Expr
		Pats   [][]Expr // optional triggers
	}
	ESel struct {
		X    Expr
		Name string
	}
	EIndex struct{ X, I Expr }
	ESlice struct{ X, Lo, Hi Expr }
	ECall  struct {
		Fn   Expr
		Args []Expr
	}
	EOld    struct{ X Expr }
	ETypeOf struct{ X Expr }
	EType   struct{ T TypeExpr } // type[T] : the type tag of T
	EAssert struct {
		X Expr
		T TypeExpr
	} // x.(T)
)

type Binder struct {
	Name string
	T    TypeExpr
}

// TypeExpr is a syntactic type: name, pkg.name, *T, []T, map[K]V, set[T], seq[T]
type TypeExpr struct {
	Kind string // "name", "ptr", "slice", "map", "set", "seq"
	Name string // for "name": possibly qualified
	Elem *TypeExpr
	Key  *TypeExpr
}

func (t TypeExpr) String() string {
	switch t.Kind {
	case "inst":
		return t.Name + "[" + t.Elem.String() + "]"
	case "name":
		return t.Name
	case "ptr":
		return "*" + t.Elem.String()
	case "slice":
		return "[]" + t.Elem.String()
	case "map":
		return "map[" + t.Key.String() + "]" + t.Elem.String()
	case "set":
		return "set[" + t.Elem.String() + "]"
	case "seq":
		return "seq[" + t.Elem.String() + "]"
	}
	return "?"
}

func (e *EIdent) String() string  { return e.Name }
func (e *EInt) String() string    { return e.V }
func (e *EStr) String() string    { return strconv.Quote(e.V) }
func (e *EBool) String() string   { return fmt.Sprint(e.V) }
func (e *ENil) String() string    { return "nil" }
func (e *EUnary) String() string  { return e.Op + e.X.String() }
func (e *EBinary) String() string { return "(" + e.X.String() + " " + e.Op + " " + e.Y.String() + ")" }
func (e *ECond) String() string {
	return "(" + e.C.String() + " ? " + e.A.String() + " : " + e.B.String() + ")"
}
func (e *EQuant) String() string {
	q := "exists"
	if e.Forall {
		q = "forall"
	}
	var vs []string
	for _, b := range e.Vars {
		vs = append(vs, b.Name+" "+b.T.String())
	}
	return "(" + q + " " + strings.Join(vs, ", ") + " :: " + e.Body.String() + ")"
}
func (e *ESel) String() string   { return e.X.String() + "." + e.Name }
func (e *EIndex) String() string { return e.X.String() + "[" + e.I.String() + "]" }
func (e *ESlice) String() string {
	lo, hi := "", ""
	if e.Lo != nil {
		lo = e.Lo.String()
	}
	if e.Hi != nil {
		hi = e.Hi.String()
	}
	return e.X.String() + "[" + lo + ":" + hi + "]"
}
func (e *ECall) String() string {
	var as []string
	for _, a := range e.Args {
		as = append(as, a.String())
	}
	return e.Fn.String() + "(" + strings.Join(as, ", ") + ")"
}
func (e *EOld) String() string    { return "old(" + e.X.String() + ")" }
func (e *ETypeOf) String() string { return "typeof(" + e.X.String() + ")" }
func (e *EType) String() string   { return "type[" + e.T.String() + "]" }
func (e *EAssert) String() string { return e.X.String() + ".(" + e.T.String() + ")" }

// ---------------------------------------------------------------- lexer

type tok struct {
	k string // "id", "int", "str", "char", "op", "eof"
	v string
}

type lexer struct {
	src  []rune
	pos  int
	toks []tok
}

var ops3 = []string{"<==>", "==>", "::", "==", "!=", "<=", ">=", "&&", "||"}

func lex(src string) ([]tok, error) {
	l := &lexer{src: []rune(src)}
	for {
		for l.pos < len(l.src) && unicode.IsSpace(l.src[l.pos]) {
			l.pos++
		}
		if l.pos >= len(l.src) {
			break
		}
		c := l.src[l.pos]
		switch {
		case unicode.IsLetter(c) || c == '_' || c == '$':
			st := l.pos
			for l.pos < len(l.src) && (unicode.IsLetter(l.src[l.pos]) || unicode.IsDigit(l.src[l.pos]) || l.src[l.pos] == '_' || l.src[l.pos] == '$') {
				l.pos++
			}
			l.toks = append(l.toks, tok{"id", string(l.src[st:l.pos])})
		case unicode.IsDigit(c):
			st := l.pos
			for l.pos < len(l.src) && (unicode.IsDigit(l.src[l.pos]) || l.src[l.pos] == '_' || l.src[l.pos] == 'x' || (l.src[l.pos] >= 'a' && l.src[l.pos] <= 'f') || (l.src[l.pos] >= 'A' && l.src[l.pos] <= 'F')) {
				l.pos++
			}
			l.toks = append(l.toks, tok{"int", strings.ReplaceAll(string(l.src[st:l.pos]), "_", "")})
		case c == '"':
			st := l.pos
			l.pos++
			for l.pos < len(l.src) && l.src[l.pos] != '"' {
				if l.src[l.pos] == '\\' {
					l.pos++
				}
				l.pos++
			}
			if l.pos >= len(l.src) {
				return nil, fmt.Errorf("unterminated string")
			}
			l.pos++
			s, err := strconv.Unquote(string(l.src[st:l.pos]))
			if err != nil {
				return nil, err
			}
			l.toks = append(l.toks, tok{"str", s})
		case c == '\'':
			st := l.pos
			l.pos++
			for l.pos < len(l.src) && l.src[l.pos] != '\'' {
				if l.src[l.pos] == '\\' {
					l.pos++
				}
				l.pos++
			}
			l.pos++
			s, err := strconv.Unquote(string(l.src[st:l.pos]))
			if err != nil {
				return nil, err
			}
			l.toks = append(l.toks, tok{"int", strconv.Itoa(int([]rune(s)[0]))})
		default:
			matched := false
			for _, o := range ops3 {
				if strings.HasPrefix(string(l.src[l.pos:min(l.pos+len(o), len(l.src))]), o) {
					l.toks = append(l.toks, tok{"op", o})
					l.pos += len([]rune(o))
					matched = true
					break
				}
			}
			if !matched {
				l.toks = append(l.toks, tok{"op", string(c)})
				l.pos++
			}
		}
	}
	l.toks = append(l.toks, tok{"eof", ""})
	return l.toks, nil
}

// ---------------------------------------------------------------- parser

type parser struct {
	toks []tok
	p    int
}

func ParseExpr(src string) (e Expr, err error) {
	toks, err := lex(src)
	if err != nil {
		return nil, err
	}
	ps := &parser{toks: toks}
	defer func() {
		if r := recover(); r != nil {
			if pe, ok := r.(parseErr); ok {
				err = fmt.Errorf("%s (in %q)", string(pe), src)
				return
			}
			panic(r)
		}
	}()
	e = ps.expr()
	if ps.peek().k != "eof" {
		ps.fail("unexpected token %q", ps.peek().v)
	}
	return e, nil
}

type parseErr string

func (ps *parser) fail(f string, a ...any) { panic(parseErr(fmt.Sprintf(f, a...))) }
func (ps *parser) peek() tok               { return ps.toks[ps.p] }
func (ps *parser) next() tok               { t := ps.toks[ps.p]; ps.p++; return t }
func (ps *parser) isOp(v string) bool      { t := ps.peek(); return t.k == "op" && t.v == v }
func (ps *parser) isID(v string) bool      { t := ps.peek(); return t.k == "id" && t.v == v }
func (ps *parser) accept(v string) bool {
	if ps.isOp(v) {
		ps.p++
		return true
	}
	return false
}
func (ps *parser) expect(v string) {
	if !ps.accept(v) {
		ps.fail("expected %q, got %q", v, ps.peek().v)
	}
}

func (ps *parser) expr() Expr {
	if ps.isID("forall") || ps.isID("exists") {
		return ps.quant()
	}
	return ps.iff()
}

func (ps *parser) quant() Expr {
	q := &EQuant{Forall: ps.next().v == "forall"}
	for {
		n := ps.ident()
		t := ps.typeExpr()
		q.Vars = append(q.Vars, Binder{n, t})
		if !ps.accept(",") {
			break
		}
	}
	ps.expect("::")
	// optional triggers { e, e } { e }
	for ps.isOp("{") {
		ps.next()
		var pat []Expr
		for {
			pat = append(pat, ps.tern())
			if !ps.accept(",") {
				break
			}
		}
		ps.expect("}")
		q.Pats = append(q.Pats, pat)
	}
	q.Body = ps.expr()
	return q
}

func (ps *parser) ident() string {
	t := ps.next()
	if t.k != "id" {
		ps.fail("expected identifier, got %q", t.v)
	}
	return t.v
}

func (ps *parser) typeExpr() TypeExpr {
	if ps.accept("*") {
		e := ps.typeExpr()
		return TypeExpr{Kind: "ptr", Elem: &e}
	}
	if ps.accept("[") {
		ps.expect("]")
		e := ps.typeExpr()
		return TypeExpr{Kind: "slice", Elem: &e}
	}
	n := ps.ident()
	if n == "map" || n == "set" || n == "seq" {
		if ps.accept("[") {
			k := ps.typeExpr()
			ps.expect("]")
			if n == "map" {
				v := ps.typeExpr()
				return TypeExpr{Kind: "map", Key: &k, Elem: &v}
			}
			return TypeExpr{Kind: n, Elem: &k}
		}
	}
	for ps.isOp(".") && ps.toks[ps.p+1].k == "id" {
		ps.next()
		n += "." + ps.ident()
	}
	// an instance of a generic type with one type argument: Name[Arg]
	if ps.isOp("[") {
		ps.next()
		a := ps.typeExpr()
		ps.expect("]")
		return TypeExpr{Kind: "inst", Name: n, Elem: &a}
	}
	return TypeExpr{Kind: "name", Name: n}
}

func (ps *parser) iff() Expr {
	x := ps.impl()
	for ps.accept("<==>") {
		y := ps.impl()
		x = &EBinary{"<==>", x, y}
	}
	return x
}

func (ps *parser) impl() Expr {
	x := ps.tern()
	if ps.accept("==>") {
		var y Expr
		if ps.isID("forall") || ps.isID("exists") {
			y = ps.quant()
		} else {
			y = ps.impl()
		}
		return &EBinary{"==>", x, y}
	}
	return x
}

func (ps *parser) tern() Expr {
	c := ps.or()
	if ps.accept("?") {
		a := ps.tern()
		ps.expect(":")
		b := ps.tern()
		return &ECond{c, a, b}
	}
	return c
}

func (ps *parser) or() Expr {
	x := ps.and()
	for ps.accept("||") {
		y := ps.and()
		x = &EBinary{"||", x, y}
	}
	return x
}

func (ps *parser) and() Expr {
	x := ps.cmp()
	for ps.accept("&&") {
		var y Expr
		if ps.isID("forall") || ps.isID("exists") {
			y = ps.quant()
		} else {
			y = ps.cmp()
		}
		x = &EBinary{"&&", x, y}
	}
	return x
}

func isCmp(t tok) bool {
	if t.k == "op" {
		switch t.v {
		case "==", "!=", "<", "<=", ">", ">=":
			return true
		}
	}
	return t.k == "id" && t.v == "in"
}

func (ps *parser) cmp() Expr {
	x := ps.add()
	var res Expr
	for isCmp(ps.peek()) {
		op := ps.next().v
		y := ps.add()
		c := &EBinary{op, x, y}
		if res == nil {
			res = c
		} else {
			res = &EBinary{"&&", res, c}
		}
		x = y
	}
	if res == nil {
		return x
	}
	return res
}

func (ps *parser) add() Expr {
	x := ps.mul()
	for ps.isOp("+") || ps.isOp("-") {
		op := ps.next().v
		y := ps.mul()
		x = &EBinary{op, x, y}
	}
	return x
}

func (ps *parser) mul() Expr {
	x := ps.unary()
	for ps.isOp("*") || ps.isOp("/") || ps.isOp("%") {
		op := ps.next().v
		y := ps.unary()
		x = &EBinary{op, x, y}
	}
	return x
}

func (ps *parser) unary() Expr {
	if ps.isOp("!") || ps.isOp("-") || ps.isOp("*") || ps.isOp("&") {
		op := ps.next().v
		return &EUnary{op, ps.unary()}
	}
	return ps.postfix()
}

func (ps *parser) postfix() Expr {
	x := ps.primary()
	for {
		switch {
		case ps.isOp("."):
			ps.next()
			if ps.accept("(") {
				t := ps.typeExpr()
				ps.expect(")")
				x = &EAssert{x, t}
			} else {
				x = &ESel{x, ps.ident()}
			}
		case ps.isOp("["):
			ps.next()
			var lo, hi Expr
			if ps.accept(":") {
				if !ps.isOp("]") {
					hi = ps.expr()
				}
				ps.expect("]")
				x = &ESlice{x, nil, hi}
				continue
			}
			lo = ps.expr()
			if ps.accept(":") {
				if !ps.isOp("]") {
					hi = ps.expr()
				}
				ps.expect("]")
				x = &ESlice{x, lo, hi}
				continue
			}
			ps.expect("]")
			x = &EIndex{x, lo}
		case ps.isOp("("):
			ps.next()
			var args []Expr
			if !ps.isOp(")") {
				for {
					args = append(args, ps.expr())
					if !ps.accept(",") {
						break
					}
				}
			}
			ps.expect(")")
			x = &ECall{x, args}
		default:
			return x
		}
	}
}

func (ps *parser) primary() Expr {
	t := ps.next()
	switch t.k {
	case "int":
		return &EInt{t.v}
	case "str":
		return &EStr{t.v}
	case "id":
		switch t.v {
		case "true":
			return &EBool{true}
		case "false":
			return &EBool{false}
		case "nil":
			return &ENil{}
		case "old":
			ps.expect("(")
			e := ps.expr()
			ps.expect(")")
			return &EOld{e}
		case "typeof":
			ps.expect("(")
			e := ps.expr()
			ps.expect(")")
			return &ETypeOf{e}
		case "type":
			if ps.accept("[") {
				ty := ps.typeExpr()
				ps.expect("]")
				return &EType{ty}
			}
		case "forall", "exists":
			ps.p--
			return ps.quant()
		}
		return &EIdent{t.v}
	case "op":
		if t.v == "(" {
			e := ps.expr()
			ps.expect(")")
			return e
		}
	}
	ps.fail("unexpected token %q", t.v)
	return nil
}

// substitute replaces identifiers by expressions (used for let bindings).
func substExpr(e Expr, m map[string]Expr) Expr {
	if e == nil || len(m) == 0 {
		return e
	}
	switch x := e.(type) {
	case *EIdent:
		if r, ok := m[x.Name]; ok {
			return r
		}
		return x
	case *EUnary:
		return &EUnary{x.Op, substExpr(x.X, m)}
	case *EBinary:
		return &EBinary{x.Op, substExpr(x.X, m), substExpr(x.Y, m)}
	case *ECond:
		return &ECond{substExpr(x.C, m), substExpr(x.A, m), substExpr(x.B, m)}
	case *EQuant:
		m2 := map[string]Expr{}
		for k, v := range m {
			m2[k] = v
		}
		for _, b := range x.Vars {
			delete(m2, b.Name)
		}
		var pats [][]Expr
		for _, p := range x.Pats {
			var pp []Expr
			for _, q := range p {
				pp = append(pp, substExpr(q, m2))
			}
			pats = append(pats, pp)
		}
		return &EQuant{x.Forall, x.Vars, substExpr(x.Body, m2), pats}
	case *ESel:
		return &ESel{substExpr(x.X, m), x.Name}
	case *EIndex:
		return &EIndex{substExpr(x.X, m), substExpr(x.I, m)}
	case *ESlice:
		return &ESlice{substExpr(x.X, m), substExpr(x.Lo, m), substExpr(x.Hi, m)}
	case *ECall:
		var as []Expr
		for _, a := range x.Args {
			as = append(as, substExpr(a, m))
		}
		return &ECall{substExpr(x.Fn, m), as}
	case *EOld:
		return &EOld{substExpr(x.X, m)}
	case *ETypeOf:
		return &ETypeOf{substExpr(x.X, m)}
	case *EAssert:
		return &EAssert{substExpr(x.X, m), x.T}
	}
	return e
}
