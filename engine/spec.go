package main

// Elaboration of specification expressions into SMT terms, typed with go/types.

import (
	"fmt"
	"go/constant"
	"go/types"
	"sort"
	"strconv"
	"strings"
)

type SV struct {
	t    Term
	ty   types.Type // Go type when known
	sort Sort
	kind string // "", "gmap", "gset", "pkg", "type", "fn"
	kty  types.Type
	vty  types.Type
	dom  Term           // gmap: domain array
	pkg  *types.Package // kind pkg
	fn   *fnRef         // kind fn
	name string         // state var name for ghost values (for modifies)
}

type fnRef struct {
	sym     string // SMT function symbol
	params  []types.Type
	results []types.Type
	recv    *SV // bound receiver, if any (passed as first arg)
	rsort   Sort
	rkind   string
}

type State map[string]Term

func (s State) clone() State {
	n := make(State, len(s))
	for k, v := range s {
		n[k] = v
	}
	return n
}

type Env struct {
	tr      *trans
	vc      *VC
	pkgPath string
	st      State
	old     State
	vars    map[string]SV
	with    map[string]TypeExpr
	lets    map[string]Expr
	errs    *[]string
	inOld   bool
	lookup  func(name string) (SV, bool)
	absIdx  map[string]Term // "sliceTerm|indexTerm" -> absolute index variable (trigger normalisation)
	addrOf  func(name string) (SV, bool)
}

func (env *Env) fail(f string, a ...any) SV {
	msg := fmt.Sprintf(f, a...)
	*env.errs = append(*env.errs, msg)
	return SV{t: "true", sort: "Bool", ty: types.Typ[types.Bool]}
}

// utf8Decl: decoding of a string at a byte position, as `range` does it: ASCII bytes are runes of width 1,
// anything else is a rune >= 128 (or the replacement rune) of width 1..4 that stays within the string.
const utf8Decl = `(declare-fun utf8.rune (Str Int) Int)
(declare-fun utf8.width (Str Int) Int)
(assert (forall ((s Str) (p Int)) (! (=> (and (<= 0 p) (< p (slen s))) (and (<= 1 (utf8.width s p)) (<= (utf8.width s p) 4) (<= (+ p (utf8.width s p)) (slen s)) (<= 0 (utf8.rune s p)) (<= (utf8.rune s p) 1114111) (ite (< (sat s p) 128) (and (= (utf8.width s p) 1) (= (utf8.rune s p) (sat s p))) (>= (utf8.rune s p) 128)))) :pattern ((utf8.width s p)))))`

func sel2(a, i Term) Term { return sel(a, i) }

func (env *Env) sub() *Env {
	n := *env
	n.vars = make(map[string]SV, len(env.vars))
	for k, v := range env.vars {
		n.vars[k] = v
	}
	return &n
}

func (env *Env) withState(st State) *Env {
	n := *env
	n.st = st
	return &n
}

var universeTypes = map[string]types.Type{
	"int": types.Typ[types.Int], "int8": types.Typ[types.Int8], "int16": types.Typ[types.Int16], "int32": types.Typ[types.Int32], "int64": types.Typ[types.Int64],
	"uint": types.Typ[types.Uint], "uint8": types.Typ[types.Uint8], "uint16": types.Typ[types.Uint16], "uint32": types.Typ[types.Uint32], "uint64": types.Typ[types.Uint64],
	"byte": types.Typ[types.Uint8], "rune": types.Typ[types.Int32], "string": types.Typ[types.String], "bool": types.Typ[types.Bool], "uintptr": types.Typ[types.Uintptr],
}

func (env *Env) resolveType(te TypeExpr) (types.Type, Sort, string) {
	switch te.Kind {
	case "ptr":
		t, _, _ := env.resolveType(*te.Elem)
		if t == nil {
			return nil, "Int", ""
		}
		return types.NewPointer(t), "Int", ""
	case "slice":
		t, _, _ := env.resolveType(*te.Elem)
		if t == nil {
			return nil, "Slice", ""
		}
		return types.NewSlice(t), "Slice", ""
	case "map":
		k, ks, _ := env.resolveType(*te.Key)
		v, vs, _ := env.resolveType(*te.Elem)
		if k != nil && v != nil {
			return types.NewMap(k, v), "(Array " + ks + " " + vs + ")", "gmap"
		}
		return nil, "(Array " + ks + " " + vs + ")", "gmap"
	case "inst":
		g, _, _ := env.resolveType(TypeExpr{Kind: "name", Name: te.Name})
		a, _, _ := env.resolveType(*te.Elem)
		if n, ok := g.(*types.Named); ok && a != nil && n.TypeParams().Len() == 1 {
			if it, err := types.Instantiate(nil, n, []types.Type{a}, false); err == nil {
				return it, env.vc.sortOf(it), ""
			}
		}
		env.fail("cannot instantiate %s", te.String())
		return nil, "Int", ""
	case "set":
		k, ks, _ := env.resolveType(*te.Elem)
		return k, "(Array " + ks + " Bool)", "gset"
	case "name":
		if w, ok := env.with[te.Name]; ok {
			e2 := *env
			e2.with = nil
			return e2.resolveType(w)
		}
		if t, ok := universeTypes[te.Name]; ok {
			return t, env.vc.sortOf(t), ""
		}
		if env.tr != nil && env.tr.fn != nil {
			f := env.tr.fn
			if o := f.Origin(); o != nil {
				f = o
			}
			for p := f; p != nil; p = p.Parent() {
				tps := p.TypeParams()
				for i := 0; i < tps.Len(); i++ {
					if tps.At(i).Obj().Name() == te.Name {
						return tps.At(i), "Iface", ""
					}
				}
				if sig := p.Signature; sig.Recv() != nil {
					if n := namedOf(sig.Recv().Type()); n != nil {
						rtp := n.TypeParams()
						if rtp == nil || rtp.Len() == 0 {
							if on := n.Origin(); on != nil {
								rtp = on.TypeParams()
							}
						}
						ta := n.TypeArgs()
						for i := 0; ta != nil && i < ta.Len(); i++ {
							if tp, ok := ta.At(i).(*types.TypeParam); ok && tp.Obj().Name() == te.Name {
								return tp, "Iface", ""
							}
						}
					}
				}
			}
		}
		if te.Name == "error" {
			t := types.Universe.Lookup("error").Type()
			return t, "Iface", ""
		}
		if te.Name == "any" {
			t := types.Universe.Lookup("any").Type()
			return t, "Iface", ""
		}
		var pkg *types.Package
		name := te.Name
		if i := strings.LastIndex(name, "."); i >= 0 {
			pkg = env.tr.prog.lookupPkg(env.pkgPath, name[:i])
			name = name[i+1:]
		} else if pk, ok := env.tr.prog.ByPath[env.pkgPath]; ok {
			pkg = pk.Types
		}
		if pkg != nil {
			if obj := pkg.Scope().Lookup(name); obj != nil {
				if tn, ok := obj.(*types.TypeName); ok {
					return tn.Type(), env.vc.sortOf(tn.Type()), ""
				}
			}
		}
		env.fail("unknown type %s", te.Name)
		return nil, "Int", ""
	}
	return nil, "Int", ""
}

func isUnsigned(t types.Type) bool {
	if t == nil {
		return false
	}
	b, ok := t.Underlying().(*types.Basic)
	return ok && b.Info()&types.IsUnsigned != 0
}

func intRange(t types.Type) (lo, hi string, ok bool) {
	b, isb := t.Underlying().(*types.Basic)
	if !isb || b.Info()&types.IsInteger == 0 {
		return "", "", false
	}
	switch b.Kind() {
	case types.Int, types.Int64:
		return "(- 9223372036854775808)", "9223372036854775807", true
	case types.Int32:
		return "(- 2147483648)", "2147483647", true
	case types.Int16:
		return "(- 32768)", "32767", true
	case types.Int8:
		return "(- 128)", "127", true
	case types.Uint, types.Uint64, types.Uintptr:
		return "0", "18446744073709551615", true
	case types.Uint32:
		return "0", "4294967295", true
	case types.Uint16:
		return "0", "65535", true
	case types.Uint8:
		return "0", "255", true
	}
	return "", "", false
}

func (env *Env) boolSV(t Term) SV { return SV{t: t, sort: "Bool", ty: types.Typ[types.Bool]} }
func (env *Env) intSV(t Term) SV  { return SV{t: t, sort: "Int", ty: types.Typ[types.Int]} }

func (env *Env) goSV(t Term, ty types.Type) SV {
	return SV{t: t, ty: ty, sort: env.vc.sortOf(ty)}
}

// elabBool elaborates e and checks it is boolean.
func (env *Env) elabBool(e Expr) Term {
	v := env.elab(e)
	if v.sort != "Bool" {
		env.fail("expected boolean: %s (got %s)", e.String(), v.sort)
		return "true"
	}
	return v.t
}

func (env *Env) elab(e Expr) SV {
	switch x := e.(type) {
	case *EBool:
		if x.V {
			return env.boolSV("true")
		}
		return env.boolSV("false")
	case *EInt:
		n, err := strconv.ParseInt(x.V, 0, 64)
		if err != nil {
			// big literal
			return env.intSV(x.V)
		}
		return env.intSV(num(n))
	case *EStr:
		return SV{t: env.vc.strLit(x.V), sort: "Str", ty: types.Typ[types.String]}
	case *ENil:
		return SV{t: "nil", sort: "nil"}
	case *EIdent:
		return env.elabIdent(x)
	case *EOld:
		n := env.withState(env.old)
		n.inOld = true
		return n.elab(x.X)
	case *EUnary:
		if x.Op == "&" {
			if id, ok := x.X.(*EIdent); ok && env.addrOf != nil {
				if v, ok := env.addrOf(id.Name); ok {
					return v
				}
			}
			// &p.f with p a pointer to a struct: the interior pointer
			if sel, ok := x.X.(*ESel); ok {
				base := env.elab(sel.X)
				if base.ty != nil {
					if pt, ok := base.ty.Underlying().(*types.Pointer); ok {
						if st, ok := pt.Elem().Underlying().(*types.Struct); ok {
							for i := 0; i < st.NumFields(); i++ {
								if st.Field(i).Name() == sel.Name {
									return env.goSV(app("fptr", base.t, num(int64(i))), types.NewPointer(st.Field(i).Type()))
								}
							}
						}
					}
				}
			}
			// &p.f with f promoted through embedded structs (values: interior pointers; pointers: loaded)
			if sel, ok := x.X.(*ESel); ok {
				base := env.elab(sel.X)
				if base.ty != nil {
					if pt, ok := base.ty.Underlying().(*types.Pointer); ok {
						obj, path, _ := types.LookupFieldOrMethod(pt, true, env.pkgTypes(), sel.Name)
						if obj == nil {
							if n := namedOf(pt.Elem()); n != nil && n.Obj().Pkg() != nil {
								obj, path, _ = types.LookupFieldOrMethod(pt, true, n.Obj().Pkg(), sel.Name)
							}
						}
						if _, isVar := obj.(*types.Var); isVar && len(path) > 1 {
							cur := base.t
							curT := pt.Elem()
							okPath := true
							for k, idx := range path {
								st, isStruct := curT.Underlying().(*types.Struct)
								if !isStruct {
									okPath = false
									break
								}
								addr := app("fptr", cur, num(int64(idx)))
								ft := st.Field(idx).Type()
								if k == len(path)-1 {
									return env.goSV(addr, types.NewPointer(ft))
								}
								if fpt, isPtr := ft.Underlying().(*types.Pointer); isPtr {
									h := env.tr.getState(env.st, env.tr.structHeap(curT, idx))
									cur = sel2(h, cur)
									curT = fpt.Elem()
								} else {
									cur = addr
									curT = ft
								}
							}
							_ = okPath
						}
					}
				}
			}
			return env.fail("cannot take the address of %s in a specification", x.X.String())
		}
		v := env.elab(x.X)
		switch x.Op {
		case "!":
			return env.boolSV(not(v.t))
		case "-":
			return SV{t: "(- " + v.t + ")", sort: "Int", ty: v.ty}
		case "*":
			return env.deref(v, e)
		}

	case *EBinary:
		return env.elabBinary(x)
	case *ECond:
		c := env.elabBool(x.C)
		a := env.elab(x.A)
		b := env.elab(x.B)
		a, b = env.unifyNil(a, b)
		if a.sort != b.sort {
			return env.fail("branches of ?: differ in sort: %s vs %s in %s", a.sort, b.sort, e.String())
		}
		r := a
		r.t = ite(c, a.t, b.t)
		return r
	case *EQuant:
		return env.elabQuant(x)
	case *ESel:
		return env.elabSel(x)
	case *EIndex:
		return env.elabIndex(x)
	case *ESlice:
		return env.elabSlice(x)
	case *ECall:
		return env.elabCall(x)
	case *ETypeOf:
		v := env.elab(x.X)
		if v.sort != "Iface" {
			return env.fail("typeof on non-interface %s", x.X.String())
		}
		return SV{t: "(itag " + v.t + ")", sort: "Int", kind: "tag"}
	case *EType:
		t, _, _ := env.resolveType(x.T)
		if t == nil {
			return env.intSV("0")
		}
		return SV{t: num(int64(env.vc.tagOf(t))), sort: "Int", kind: "tag"}
	case *EAssert:
		v := env.elab(x.X)
		t, _, _ := env.resolveType(x.T)
		if t == nil || v.sort != "Iface" {
			return env.fail("bad type assertion %s", e.String())
		}
		if types.IsInterface(t) {
			return SV{t: v.t, sort: "Iface", ty: t}
		}
		return env.goSV(env.vc.unbox(t, "(ival "+v.t+")"), t)
	}
	return env.fail("cannot elaborate %s", e.String())
}

func (env *Env) elabIdent(x *EIdent) SV {
	if v, ok := env.vars[x.Name]; ok {
		return v
	}
	if env.lookup != nil {
		if v, ok := env.lookup(x.Name); ok {
			return v
		}
	}
	if le, ok := env.lets[x.Name]; ok {
		return env.elab(le)
	}
	if g, ok := env.tr.prog.CS.Ghosts[x.Name]; ok {
		return env.ghostVar(g)
	}
	if sf, ok := env.tr.prog.CS.SpecFuncs[x.Name]; ok {
		return SV{kind: "fn", fn: env.tr.specFuncRef(sf), sort: "fn"}
	}
	// package-level Go object
	if pk, ok := env.tr.prog.ByPath[env.pkgPath]; ok {
		if obj := pk.Types.Scope().Lookup(x.Name); obj != nil {
			return env.goObject(obj)
		}
		// imported package name
		if p := env.tr.prog.lookupPkg(env.pkgPath, x.Name); p != nil {
			return SV{kind: "pkg", pkg: p, sort: "pkg"}
		}
	} else if p := env.tr.prog.lookupPkg(env.pkgPath, x.Name); p != nil {
		return SV{kind: "pkg", pkg: p, sort: "pkg"}
	}
	if t, ok := universeTypes[x.Name]; ok {
		return SV{kind: "type", ty: t, sort: "type"}
	}
	return env.fail("unknown identifier %s", x.Name)
}

func (env *Env) ghostVar(g *GhostVar) SV {
	e2 := *env
	e2.pkgPath = g.PkgPath
	ty, srt, kind := e2.resolveType(g.T)
	name := "ghost." + g.Name
	env.tr.stateSort[name] = srt
	v := SV{t: env.tr.getState(env.st, name), sort: srt, ty: ty, kind: kind, name: name}
	if kind == "gmap" {
		if m, ok := ty.(*types.Map); ok {
			v.kty, v.vty = m.Key(), m.Elem()
		}
		ks := env.vc.sortOf(v.kty)
		dn := name + "$dom"
		env.tr.stateSort[dn] = "(Array " + ks + " Bool)"
		v.dom = env.tr.getState(env.st, dn)
	}
	if kind == "gset" {
		v.kty = ty
		v.ty = nil
	}
	return v
}

func (env *Env) goObject(obj types.Object) SV {
	switch o := obj.(type) {
	case *types.Const:
		return env.constSV(o.Val(), o.Type())
	case *types.Var:
		// a package-level variable the program assigns is read from the state the specification speaks about
		// (current, or old inside old(...)); only variables that are never assigned are constants
		for g := range env.tr.storedGlobals() {
			if g.Object() == types.Object(o) {
				return env.goSV(env.tr.getState(env.st, env.tr.globalVar(g)), o.Type())
			}
		}
		return env.goSV(env.tr.globalConst(o), o.Type())
	case *types.TypeName:
		return SV{kind: "type", ty: o.Type(), sort: "type"}
	case *types.Func:
		if fr := env.tr.goFuncRef(o); fr != nil {
			return SV{kind: "fn", fn: fr, sort: "fn"}
		}
		return env.fail("Go function %s used in a specification has no purefn contract", o.FullName())
	}
	return env.fail("unsupported object %s", obj.Name())
}

func (env *Env) constSV(v constant.Value, t types.Type) SV {
	switch v.Kind() {
	case constant.Bool:
		if constant.BoolVal(v) {
			return env.boolSV("true")
		}
		return env.boolSV("false")
	case constant.String:
		return SV{t: env.vc.strLit(constant.StringVal(v)), sort: "Str", ty: t}
	case constant.Int:
		s := v.ExactString()
		if strings.HasPrefix(s, "-") {
			s = "(- " + s[1:] + ")"
		}
		return SV{t: s, sort: "Int", ty: t}
	}
	return env.fail("unsupported constant %s", v.String())
}

func (env *Env) deref(v SV, e Expr) SV {
	if v.ty == nil {
		return env.fail("cannot dereference %s", e.String())
	}
	p, ok := v.ty.Underlying().(*types.Pointer)
	if !ok {
		return env.fail("dereference of non-pointer %s", e.String())
	}
	l := &Loc{kind: locObj, ref: v.t, ty: p.Elem()}
	return env.goSV(env.tr.load(env.st, l), p.Elem())
}

func (env *Env) unifyNil(a, b SV) (SV, SV) {
	if a.sort == "nil" && b.sort != "nil" {
		a = env.nilOf(b)
	} else if b.sort == "nil" && a.sort != "nil" {
		b = env.nilOf(a)
	}
	return a, b
}

func (env *Env) nilOf(like SV) SV {
	r := like
	switch like.sort {
	case "Int":
		r.t = "0"
	case "Slice":
		r.t = "(mkSlice 0 0 0 0)"
	case "Iface":
		r.t = "(mkIface 0 0)"
	default:
		env.fail("nil compared with %s", like.sort)
	}
	return r
}

func (env *Env) elabBinary(x *EBinary) SV {
	switch x.Op {
	case "&&", "||", "==>", "<==>":
		a := env.elabBool(x.X)
		b := env.elabBool(x.Y)
		switch x.Op {
		case "&&":
			return env.boolSV(and(a, b))
		case "||":
			return env.boolSV(or(a, b))
		case "==>":
			return env.boolSV(implies(a, b))
		default:
			return env.boolSV(eq(a, b))
		}
	case "in":
		k := env.elab(x.X)
		m := env.elab(x.Y)
		switch m.kind {
		case "gmap":
			return env.boolSV(sel(m.dom, k.t))
		case "gset":
			return env.boolSV(sel(m.t, k.t))
		}
		if m.ty != nil {
			if mt, ok := m.ty.Underlying().(*types.Map); ok {
				return env.boolSV(and(not(eq(m.t, "0")), sel(sel(env.tr.getState(env.st, env.tr.mapHeap(mt, "dom")), m.t), k.t)))
			}
		}
		return env.fail("'in' on non-map %s", x.Y.String())
	}
	a := env.elab(x.X)
	b := env.elab(x.Y)
	switch x.Op {
	case "==", "!=":
		// nil comparisons
		if b.sort == "nil" || a.sort == "nil" {
			v := a
			if a.sort == "nil" {
				v = b
			}
			var t Term
			switch v.sort {
			case "Int":
				t = eq(v.t, "0")
			case "Slice":
				t = eq("(sarr "+v.t+")", "0")
			case "Iface":
				t = eq("(itag "+v.t+")", "0")
			default:
				return env.fail("nil comparison on %s", v.sort)
			}
			if x.Op == "!=" {
				t = not(t)
			}
			return env.boolSV(t)
		}
		// a concrete value compared with an interface value: the implicit conversion Go performs
		if a.sort == "Iface" && b.sort != "Iface" && b.ty != nil {
			b = SV{t: fmt.Sprintf("(mkIface %d %s)", env.vc.tagOf(b.ty), env.vc.box(b.ty, b.t)), sort: "Iface", ty: a.ty}
		} else if b.sort == "Iface" && a.sort != "Iface" && a.ty != nil {
			a = SV{t: fmt.Sprintf("(mkIface %d %s)", env.vc.tagOf(a.ty), env.vc.box(a.ty, a.t)), sort: "Iface", ty: b.ty}
		}
		if a.sort != b.sort {
			return env.fail("comparison of different sorts %s / %s in %s", a.sort, b.sort, x.String())
		}
		t := eq(a.t, b.t)
		if a.kind == "gmap" && b.kind == "gmap" {
			t = and(eq(a.t, b.t), eq(a.dom, b.dom))
		}
		if x.Op == "!=" {
			t = not(t)
		}
		return env.boolSV(t)
	case "<", "<=", ">", ">=":
		if a.sort == "Str" && b.sort == "Str" {
			switch x.Op {
			case "<":
				return env.boolSV(app("slt", a.t, b.t))
			case ">":
				return env.boolSV(app("slt", b.t, a.t))
			case "<=":
				return env.boolSV(not(app("slt", b.t, a.t)))
			default:
				return env.boolSV(not(app("slt", a.t, b.t)))
			}
		}
		if a.sort != "Int" || b.sort != "Int" {
			return env.fail("ordering on non-integers in %s", x.String())
		}
		return env.boolSV(app(x.Op, a.t, b.t))
	case "+":
		if a.sort == "Str" && b.sort == "Str" {
			return SV{t: app("scat", a.t, b.t), sort: "Str", ty: a.ty}
		}
		fallthrough
	case "-", "*":
		if a.sort != "Int" || b.sort != "Int" {
			return env.fail("arithmetic on non-integers in %s", x.String())
		}
		return SV{t: app(x.Op, a.t, b.t), sort: "Int", ty: a.ty}
	case "/":
		return SV{t: app("godiv", a.t, b.t), sort: "Int", ty: a.ty}
	case "%":
		return SV{t: app("gomod", a.t, b.t), sort: "Int", ty: a.ty}
	}
	return env.fail("unsupported operator %s", x.Op)
}

func (env *Env) elabQuant(x *EQuant) SV {
	// several alternative slice-index triggers: one quantifier per trigger (each gets its own
	// absolute-index normalisation); for exists this is not meaningful
	if x.Forall && len(x.Pats) > 1 {
		all := true
		for _, p := range x.Pats {
			if len(p) != 1 {
				all = false
			}
		}
		if all {
			var cs []Term
			for _, p := range x.Pats {
				y := *x
				y.Pats = [][]Expr{p}
				cs = append(cs, env.elabQuant(&y).t)
			}
			return env.boolSV(and(cs...))
		}
	}
	n := env.sub()
	var decls []string
	var guards []Term
	for _, b := range x.Vars {
		ty, srt, kind := n.resolveType(b.T)
		name := env.vc.fresh("q." + b.Name)
		decls = append(decls, "("+name+" "+srt+")")
		v := SV{t: name, ty: ty, sort: srt, kind: kind}
		n.vars[b.Name] = v
		if ty != nil && kind == "" {
			if lo, hi, ok := intRange(ty); ok {
				bk := ty.Underlying().(*types.Basic).Kind()
				if bk != types.Int && bk != types.Int64 {
					guards = append(guards, app("<=", lo, name), app("<=", name, hi))
				}
			}
		}
	}
	// Trigger normalisation: a single trigger s[k+c] on a slice, k a bound integer variable, is rewritten
	// with the absolute array index j = off(s)+k+c as the bound variable, so that the pattern
	// (select (select A arr) j) contains no arithmetic and matches every read of that backing array.
	if len(x.Pats) == 1 && len(x.Pats[0]) == 1 {
		pat := x.Pats[0][0]
		nn := n
		if o, isOld := pat.(*EOld); isOld {
			// old(s[k]): the slice is the one of the pre-state
			pat = o.X
			nn = n.withState(n.old)
		}
		if ix, ok := pat.(*EIndex); ok {
			if kname, cexpr, ok2 := splitIndex(ix.I, n.vars, x.Vars); ok2 {
				sv := nn.elab(ix.X)
				if sv.sort == "Slice" && !strings.Contains(sv.t, n.vars[kname].t) {
					c := "0"
					if cexpr != nil {
						c = n.elab(cexpr).t
					}
					if !strings.Contains(c, n.vars[kname].t) {
						j := n.vars[kname].t // reuse the bound symbol as the absolute index
						kv := n.vars[kname]
						kterm := "(- " + j + " (soff " + sv.t + ") " + c + ")"
						kv.t = kterm
						n.vars[kname] = kv
						if n.absIdx == nil {
							n.absIdx = map[string]Term{}
						} else {
							m := map[string]Term{}
							for k2, v2 := range n.absIdx {
								m[k2] = v2
							}
							n.absIdx = m
						}
						it := n.elab(ix.I).t
						n.absIdx[sv.t+"|"+it] = j
					}
				}
			}
		}
	}
	body := n.elabBool(x.Body)
	var pats string
	for _, p := range x.Pats {
		var ts []string
		for _, pe := range p {
			ts = append(ts, n.elab(pe).t)
		}
		pats += " :pattern (" + strings.Join(ts, " ") + ")"
	}
	if x.Forall {
		body = implies(and(guards...), body)
	} else {
		body = and(append(guards, body)...)
	}
	if pats != "" {
		body = "(! " + body + pats + ")"
	}
	qn := "exists"
	if x.Forall {
		qn = "forall"
	}
	return env.boolSV("(" + qn + " (" + strings.Join(decls, " ") + ") " + body + ")")
}

func (env *Env) elabSel(x *ESel) SV {
	v := env.elab(x.X)
	switch v.kind {
	case "pkg":
		if obj := v.pkg.Scope().Lookup(x.Name); obj != nil {
			return env.goObject(obj)
		}
		if g, ok := env.tr.prog.CS.Ghosts[x.Name]; ok && g.PkgPath == v.pkg.Path() {
			return env.ghostVar(g)
		}
		if sf, ok := env.tr.prog.CS.SpecFuncs[x.Name]; ok && sf.PkgPath == v.pkg.Path() {
			return SV{kind: "fn", fn: env.tr.specFuncRef(sf), sort: "fn"}
		}
		return env.fail("unknown %s.%s", v.pkg.Name(), x.Name)
	case "type":
		// method expression not supported
		return env.fail("selector on type %s", x.String())
	}
	if v.ty == nil {
		return env.fail("selector %s on untyped value", x.String())
	}
	return env.selectField(v, x.Name, x)
}

// selectField handles x.f for struct values and pointers to structs (with promotion), and methods.
func (env *Env) selectField(v SV, name string, at Expr) SV {
	obj, index, _ := types.LookupFieldOrMethod(v.ty, true, env.pkgTypes(), name)
	if obj == nil {
		// retry with the declaring package of the type (unexported fields of other packages)
		if n := namedOf(v.ty); n != nil && n.Obj().Pkg() != nil {
			obj, index, _ = types.LookupFieldOrMethod(v.ty, true, n.Obj().Pkg(), name)
		}
	}
	if obj == nil {
		return env.fail("no field or method %s in %s (%s)", name, typeKey(v.ty), at.String())
	}
	switch o := obj.(type) {
	case *types.Var:
		cur := v
		for _, i := range index {
			cur = env.fieldAt(cur, i)
		}
		return cur
	case *types.Func:
		// method value: bind receiver. Walking through embedded struct fields of an object reached by
		// pointer keeps an address (the interior pointer fptr(ref, field)), so that methods with pointer
		// receivers on embedded structs can be named in specifications.
		recv := v
		for _, i := range index[:len(index)-1] {
			if pt, ok := recv.ty.Underlying().(*types.Pointer); ok {
				if st, ok := pt.Elem().Underlying().(*types.Struct); ok {
					if _, isStruct := st.Field(i).Type().Underlying().(*types.Struct); isStruct {
						recv = env.goSV(app("fptr", recv.t, num(int64(i))), types.NewPointer(st.Field(i).Type()))
						continue
					}
				}
			}
			recv = env.fieldAt(recv, i)
		}
		if types.IsInterface(recv.ty) {
			fr := env.tr.ifaceMethodRef(recv.ty, o)
			fr2 := *fr
			fr2.recv = &recv
			return SV{kind: "fn", fn: &fr2, sort: "fn"}
		}
		fr := env.tr.goFuncRef(o)
		if fr == nil {
			return env.fail("method %s used in a specification has no purefn contract", o.FullName())
		}
		fr2 := *fr
		// adjust receiver: method may want pointer or value
		sig := o.Type().(*types.Signature)
		_, wantPtr := sig.Recv().Type().(*types.Pointer)
		_, havePtr := recv.ty.Underlying().(*types.Pointer)
		if wantPtr && !havePtr {
			return env.fail("method %s needs an addressable receiver", o.FullName())
		}
		if !wantPtr && havePtr {
			recv = env.deref(recv, at)
		}
		fr2.recv = &recv
		return SV{kind: "fn", fn: &fr2, sort: "fn"}
	}
	return env.fail("unsupported selector %s", at.String())
}

func namedOf(t types.Type) *types.Named {
	if p, ok := t.(*types.Pointer); ok {
		t = p.Elem()
	}
	if n, ok := t.(*types.Named); ok {
		return n
	}
	return nil
}

func (env *Env) pkgTypes() *types.Package {
	if pk, ok := env.tr.prog.ByPath[env.pkgPath]; ok {
		return pk.Types
	}
	return nil
}

func (env *Env) fieldAt(v SV, i int) SV {
	t := v.ty
	if p, ok := t.Underlying().(*types.Pointer); ok {
		st, ok := p.Elem().Underlying().(*types.Struct)
		if !ok {
			return env.fail("field of non-struct pointer")
		}
		l := &Loc{kind: locField, base: &Loc{kind: locObj, ref: v.t, ty: p.Elem()}, idx: i, ty: st.Field(i).Type()}
		return env.goSV(env.tr.load(env.st, l), st.Field(i).Type())
	}
	st, ok := t.Underlying().(*types.Struct)
	if !ok {
		return env.fail("field of non-struct %s", typeKey(t))
	}
	env.vc.sortOf(t)
	return env.goSV(app(env.vc.fieldAcc(t, i), v.t), st.Field(i).Type())
}

func (env *Env) elabIndex(x *EIndex) SV {
	v := env.elab(x.X)
	i := env.elab(x.I)
	switch v.kind {
	case "gmap":
		r := SV{t: sel(v.t, i.t), ty: v.vty}
		if v.vty != nil {
			r.sort = env.vc.sortOf(v.vty)
		}
		return r
	case "gset":
		return env.boolSV(sel(v.t, i.t))
	}
	if v.ty == nil {
		return env.fail("index on untyped value %s", x.String())
	}
	switch u := v.ty.Underlying().(type) {
	case *types.Slice:
		h := env.tr.getState(env.st, env.tr.arrHeap(u.Elem()))
		if j, ok := env.absIdx[v.t+"|"+i.t]; ok {
			return env.goSV(sel(sel(h, "(sarr "+v.t+")"), j), u.Elem())
		}
		return env.goSV(sel(sel(h, "(sarr "+v.t+")"), app("+", "(soff "+v.t+")", i.t)), u.Elem())
	case *types.Basic:
		if u.Info()&types.IsString != 0 {
			return SV{t: app("sat", v.t, i.t), sort: "Int", ty: types.Typ[types.Uint8]}
		}
	case *types.Map:
		h := env.tr.getState(env.st, env.tr.mapHeap(u, "val"))
		return env.goSV(sel(sel(h, v.t), i.t), u.Elem())
	case *types.Array:
		return env.goSV(sel(v.t, i.t), u.Elem())
	case *types.Pointer:
		if a, ok := u.Elem().Underlying().(*types.Array); ok {
			h := env.tr.getState(env.st, env.tr.arrHeap(a.Elem()))
			return env.goSV(sel(sel(h, v.t), i.t), a.Elem())
		}
	}
	return env.fail("cannot index %s", x.String())
}

func (env *Env) elabSlice(x *ESlice) SV {
	v := env.elab(x.X)
	lo := "0"
	if x.Lo != nil {
		lo = env.elab(x.Lo).t
	}
	if v.sort == "Str" {
		hi := app("slen", v.t)
		if x.Hi != nil {
			hi = env.elab(x.Hi).t
		}
		return SV{t: app("ssub", v.t, lo, hi), sort: "Str", ty: v.ty}
	}
	if v.sort == "Slice" {
		hi := "(sllen " + v.t + ")"
		if x.Hi != nil {
			hi = env.elab(x.Hi).t
		}
		r := v
		r.t = fmt.Sprintf("(mkSlice (sarr %s) (+ (soff %s) %s) (- %s %s) (- (scap %s) %s))", v.t, v.t, lo, hi, lo, v.t, lo)
		return r
	}
	return env.fail("cannot slice %s", x.String())
}

func (env *Env) elabCall(x *ECall) SV {
	// builtins
	if id, ok := x.Fn.(*EIdent); ok {
		if _, shadow := env.vars[id.Name]; !shadow {
			switch id.Name {
			case "len":
				v := env.elab(x.Args[0])
				switch {
				case v.sort == "Slice":
					return env.intSV("(sllen " + v.t + ")")
				case v.sort == "Str":
					return env.intSV(app("slen", v.t))
				case v.ty != nil:
					if mt, ok := v.ty.Underlying().(*types.Map); ok {
						// as in Go: the nil map has length 0
						return env.intSV(ite(eq(v.t, "0"), "0", sel(env.tr.getState(env.st, env.tr.mapHeap(mt, "len")), v.t)))
					}
					if at, ok := v.ty.Underlying().(*types.Array); ok {
						return env.intSV(num(at.Len()))
					}
				}
				return env.fail("len of %s", x.Args[0].String())
			case "cap":
				v := env.elab(x.Args[0])
				return env.intSV("(scap " + v.t + ")")
			case "min", "max":
				a := env.elab(x.Args[0])
				b := env.elab(x.Args[1])
				op := "<="
				if id.Name == "max" {
					op = ">="
				}
				return SV{t: ite(app(op, a.t, b.t), a.t, b.t), sort: "Int", ty: a.ty}
			case "sarr":
				v := env.elab(x.Args[0])
				return env.intSV("(sarr " + v.t + ")")
			case "soff":
				v := env.elab(x.Args[0])
				return env.intSV("(soff " + v.t + ")")
			case "itoa":
				v := env.elab(x.Args[0])
				return SV{t: app("str.of.int", v.t), sort: "Str", ty: types.Typ[types.String]}
			case "last":
				// last(f, i): i-th argument of the last call of function parameter f ; last(f): its (first) result
				fid, ok := x.Args[0].(*EIdent)
				if !ok {
					return env.fail("last() needs a function parameter name")
				}
				idx := -1
				if len(x.Args) > 1 {
					n, _ := strconv.Atoi(x.Args[1].(*EInt).V)
					idx = n
				}
				return env.tr.lastCall(env, fid.Name, idx)
			case "update":
				m := env.elab(x.Args[0])
				k := env.elab(x.Args[1])
				v := env.elab(x.Args[2])
				if m.kind != "gmap" {
					return env.fail("update() on non-ghost-map")
				}
				if v.sort == "nil" {
					v = env.nilOf(env.goSV("", m.vty))
				}
				if v.sort == "Iface" && m.vty != nil && env.vc.sortOf(m.vty) == "Int" {
					v.t = "(ival " + v.t + ")" // a reference-valued ghost map fed from generic code (type parameter values are interfaces)
				}
				r := m
				r.t = store(m.t, k.t, v.t)
				r.dom = store(m.dom, k.t, "true")
				r.name = ""
				return r
			case "remove":
				m := env.elab(x.Args[0])
				k := env.elab(x.Args[1])
				if m.kind != "gmap" {
					return env.fail("remove() on non-ghost-map")
				}
				r := m
				r.dom = store(m.dom, k.t, "false")
				r.name = ""
				return r
			case "runeat", "runewidth":
				// the rune decoded at byte position p of a string, and its width in bytes (what `range` yields)
				sv := env.elab(x.Args[0])
				pv := env.elab(x.Args[1])
				env.vc.declFun("utf8.rune", utf8Decl)
				if id.Name == "runeat" {
					return SV{t: app("utf8.rune", sv.t, pv.t), sort: "Int", ty: types.Typ[types.Int32]}
				}
				return env.intSV(app("utf8.width", sv.t, pv.t))
			case "chr":
				v := env.elab(x.Args[0])
				env.vc.declFun("chr", "(declare-fun chr (Int) Str)\n(assert (forall ((c Int)) (! (and (= (slen (chr c)) 1) (=> (and (<= 0 c) (< c 256)) (= (sat (chr c) 0) c))) :pattern ((chr c)))))")
				return SV{t: app("chr", v.t), sort: "Str", ty: types.Typ[types.String]}
			case "sentcount", "sentat":
				cv := env.elab(x.Args[0])
				var et types.Type
				if cv.ty != nil {
					if ch, ok := cv.ty.Underlying().(*types.Chan); ok {
						et = ch.Elem()
					}
				}
				if et == nil {
					return env.fail("%s: not a channel", x.Args[0].String())
				}
				snN, snAt := env.tr.sentVars(et)
				if id.Name == "sentcount" {
					return env.intSV(sel(env.tr.getState(env.st, snN), cv.t))
				}
				k := env.elab(x.Args[1])
				return env.goSV(sel(sel(env.tr.getState(env.st, snAt), cv.t), k.t), et)
			case "recvcount", "recvat":
				// ghost history of a channel variable: recvcount(ch), recvat(ch, k)
				cv := env.elab(x.Args[0])
				var et types.Type
				if cv.ty != nil {
					if ch, ok := cv.ty.Underlying().(*types.Chan); ok {
						et = ch.Elem()
					}
				}
				if et == nil {
					return env.fail("%s: not a channel", x.Args[0].String())
				}
				cnN, cnAt := env.tr.recvVars(et)
				if id.Name == "recvcount" {
					return env.intSV(sel(env.tr.getState(env.st, cnN), cv.t))
				}
				k := env.elab(x.Args[1])
				return env.goSV(sel(sel(env.tr.getState(env.st, cnAt), cv.t), k.t), et)
			case "implements":
				// implements(x, T): the dynamic type of interface value x implements / is T (T an interface or type parameter)
				v := env.elab(x.Args[0])
				tn := exprToQualified(x.Args[1])
				ty, _, _ := env.resolveType(TypeExpr{Kind: "name", Name: tn})
				if ty == nil || v.sort != "Iface" {
					return env.fail("implements(%s, %s)", x.Args[0].String(), tn)
				}
				pn := q("implements." + typeKey(ty))
				env.vc.declFun("implements."+typeKey(ty), fmt.Sprintf("(declare-fun %s (Int) Bool)\n(assert (not (%s 0)))", pn, pn))
				return env.boolSV(app(pn, "(itag "+v.t+")"))
			case "lastres":
				fid, ok := x.Args[0].(*EIdent)
				if !ok {
					return env.fail("lastres() needs a function parameter name")
				}
				n, _ := strconv.Atoi(x.Args[1].(*EInt).V)
				return env.tr.lastRes(env, fid.Name, n)
			case "allocated":
				v := env.elab(x.Args[0])
				r := v.t
				if v.sort == "Slice" {
					r = "(sarr " + v.t + ")"
				}
				return env.boolSV(and(app("<", "0", r), app("<", r, env.tr.getState(env.st, "$next"))))
			case "called":
				fid, ok := x.Args[0].(*EIdent)
				if !ok {
					return env.fail("called() needs a function parameter name")
				}
				env.tr.stateSort["call."+fid.Name+".n"] = "Int"
				return env.boolSV(app(">", env.tr.getState(env.st, "call."+fid.Name+".n"), "0"))
			case "hasvalue":
				// hasvalue(x): the interface value x holds a non-nil value (not nil, and not a nil pointer wrapped in it)
				if len(x.Args) == 1 {
					v := env.elab(x.Args[0])
					if v.sort == "Iface" {
						return env.boolSV(and(not(eq("(itag "+v.t+")", "0")), not(eq("(ival "+v.t+")", "0"))))
					}
				}
				return env.fail("hasvalue needs an interface value")
			case "samearray":
				// samearray(a, b): two slices share their backing array
				if len(x.Args) == 2 {
					a := env.elab(x.Args[0])
					b := env.elab(x.Args[1])
					if a.sort == "Slice" && b.sort == "Slice" {
						return env.boolSV(eq("(sarr "+a.t+")", "(sarr "+b.t+")"))
					}
				}
				return env.fail("samearray needs two slices")
			case "fresh":
				// fresh(p): pointer allocated during this call
				v := env.elab(x.Args[0])
				r := v.t
				if v.sort == "Slice" {
					r = "(sarr " + v.t + ")"
				}
				return env.boolSV(app(">=", r, env.tr.getState(env.old, "$next")))
			case "string":
				v := env.elab(x.Args[0])
				if v.sort == "Str" {
					return SV{t: v.t, sort: "Str", ty: types.Typ[types.String]}
				}
			case "int", "uint64", "int64", "uint", "uint32", "int32":
				v := env.elab(x.Args[0])
				if v.sort == "Int" {
					return SV{t: v.t, sort: "Int", ty: universeTypes[id.Name]}
				}
			}
		}
	}
	f := env.elab(x.Fn)
	if f.kind == "type" {
		// conversion T(x)
		v := env.elab(x.Args[0])
		v.ty = f.ty
		return v
	}
	if f.kind != "fn" && f.ty != nil {
		// application of a value of a named pure function type
		if sym, rt := env.tr.dynPureSym(f.ty); sym != "" {
			args := []Term{f.t}
			for _, a := range x.Args {
				args = append(args, env.elab(a).t)
			}
			return env.goSV(app(sym, args...), rt)
		}
	}
	if f.kind != "fn" || f.fn == nil {
		return env.fail("%s is not callable in a specification", x.Fn.String())
	}
	var args []Term
	if f.fn.recv != nil {
		args = append(args, f.fn.recv.t)
	}
	for i, a := range x.Args {
		v := env.elab(a)
		if v.sort == "nil" {
			k := i
			if k < len(f.fn.params) {
				v = env.nilOf(env.goSV("", f.fn.params[k]))
			}
		}
		// implicit conversion of a concrete value to an interface-typed parameter
		if i < len(f.fn.params) && f.fn.params[i] != nil && v.ty != nil && v.sort != "Iface" && env.vc.sortOf(f.fn.params[i]) == "Iface" {
			v.t = fmt.Sprintf("(mkIface %d %s)", env.vc.tagOf(v.ty), env.vc.box(v.ty, v.t))
		}
		args = append(args, v.t)
	}
	if len(f.fn.results) == 0 {
		return env.fail("call of %s has no result", x.Fn.String())
	}
	rt := f.fn.results[0]
	if rt == nil {
		return SV{t: app(f.fn.sym, args...), sort: f.fn.resSort()}
	}
	r := env.goSV(app(f.fn.sym, args...), rt)
	if f.fn.rkind != "" {
		r.kind = f.fn.rkind
		r.sort = f.fn.rsort
	}
	return r
}

func sortedKeys[V any](m map[string]V) []string {
	var ks []string
	for k := range m {
		ks = append(ks, k)
	}
	sort.Strings(ks)
	return ks
}

// splitIndex recognises k, k+c, c+k, k-c with k a variable bound by the quantifier.
func splitIndex(e Expr, vars map[string]SV, bound []Binder) (string, Expr, bool) {
	isBound := func(e Expr) (string, bool) {
		id, ok := e.(*EIdent)
		if !ok {
			return "", false
		}
		for _, b := range bound {
			if b.Name == id.Name {
				return id.Name, true
			}
		}
		return "", false
	}
	if n, ok := isBound(e); ok {
		return n, nil, true
	}
	if b, ok := e.(*EBinary); ok {
		switch b.Op {
		case "+":
			if n, ok := isBound(b.X); ok {
				return n, b.Y, true
			}
			if n, ok := isBound(b.Y); ok {
				return n, b.X, true
			}
		case "-":
			if n, ok := isBound(b.X); ok {
				return n, &EUnary{"-", b.Y}, true
			}
		}
	}
	return "", nil, false
}
