package main

import (
	"fmt"
	"go/types"
	"os"
	"path/filepath"
	"sort"
	"strings"

	"golang.org/x/tools/go/packages"
	"golang.org/x/tools/go/ssa"
	"golang.org/x/tools/go/ssa/ssautil"
)

const repoModule = "github.com/MichaelMure/git-bug"

type Program struct {
	Pkgs    []*packages.Package
	SSA     *ssa.Program
	ByPath  map[string]*packages.Package
	ByName  map[string][]*packages.Package
	Funcs   map[string]*ssa.Function // pkgpath.Name -> function (incl. methods as (*T).M / T.M, closures as F$1)
	CS      *Contracts
	RepoDir string
	lines   map[string][]string
}

func (p *Program) fileLines(name string) []string {
	if p.lines == nil {
		p.lines = map[string][]string{}
	}
	if l, ok := p.lines[name]; ok {
		return l
	}
	data, err := os.ReadFile(name)
	if err != nil {
		p.lines[name] = nil
		return nil
	}
	l := strings.Split(string(data), "\n")
	p.lines[name] = l
	return l
}

func LoadProgram(repoDir string, patterns []string) (*Program, error) {
	cfg := &packages.Config{Mode: packages.LoadAllSyntax, Dir: repoDir, BuildFlags: []string{"-tags=verif"},
		Env: append(os.Environ(), "GOFLAGS=-mod=mod", "GOPROXY=off", "GOSUMDB=off", "GOTOOLCHAIN=local")}
	pkgs, err := packages.Load(cfg, patterns...)
	if err != nil {
		return nil, err
	}
	var errs []string
	packages.Visit(pkgs, nil, func(p *packages.Package) {
		if strings.HasPrefix(p.PkgPath, repoModule) {
			for _, e := range p.Errors {
				errs = append(errs, e.Error())
			}
		}
	})
	if len(errs) > 0 {
		return nil, fmt.Errorf("package errors: %s", strings.Join(errs, "; "))
	}
	prog, _ := ssautil.AllPackages(pkgs, ssa.GlobalDebug)
	prog.Build()
	p := &Program{Pkgs: pkgs, SSA: prog, ByPath: map[string]*packages.Package{}, ByName: map[string][]*packages.Package{}, Funcs: map[string]*ssa.Function{}, RepoDir: repoDir}
	packages.Visit(pkgs, nil, func(pk *packages.Package) {
		p.ByPath[pk.PkgPath] = pk
		p.ByName[pk.Name] = append(p.ByName[pk.Name], pk)
	})
	for fn := range ssautil.AllFunctions(prog) {
		if fn.Pkg == nil && fn.Origin() == nil && fn.Parent() == nil {
			// wrappers / synthetic
			if fn.Synthetic != "" {
				continue
			}
		}
		if fn.Synthetic != "" && !strings.HasPrefix(fn.Synthetic, "package init") {
			continue
		}
		k := funcKey(fn)
		if k != "" {
			if old, ok := p.Funcs[k]; ok && old != fn {
				// prefer the generic origin
				if fn.Origin() != nil {
					continue
				}
			}
			p.Funcs[k] = fn
		}
	}
	// contracts
	p.CS = NewContracts()
	var paths []string
	for path, pk := range p.ByPath {
		if strings.HasPrefix(path, repoModule) {
			_ = pk
			paths = append(paths, path)
		}
	}
	sort.Strings(paths)
	for _, path := range paths {
		pk := p.ByPath[path]
		for _, f := range pk.GoFiles {
			if filepath.Base(f) == "verif_contracts.go" {
				p.CS.LoadFile(f, path, false)
			}
		}
	}
	p.expandTemplates()
	return p, nil
}

// expandTemplates: a contract "func T.* implementing pkg.Iface" becomes one contract per method of the
// interface (looked up in the type-checked program, so methods added later are covered automatically).
func (p *Program) expandTemplates() {
	for _, key := range sortedKeys(p.CS.Funcs) {
		fc := p.CS.Funcs[key]
		if fc.Implementing == "" {
			continue
		}
		delete(p.CS.Funcs, key)
		name := fc.Implementing
		i := strings.LastIndex(name, ".")
		var pkg *types.Package
		if i >= 0 {
			pkg = p.lookupPkg(fc.PkgPath, name[:i])
			name = name[i+1:]
		} else if pk, ok := p.ByPath[fc.PkgPath]; ok {
			pkg = pk.Types
		}
		if pkg == nil {
			p.CS.Errors = append(p.CS.Errors, fmt.Sprintf("%s:%d: unknown package in %q", fc.File, fc.Line, fc.Implementing))
			continue
		}
		obj := pkg.Scope().Lookup(name)
		if obj == nil {
			p.CS.Errors = append(p.CS.Errors, fmt.Sprintf("%s:%d: unknown interface %q", fc.File, fc.Line, fc.Implementing))
			continue
		}
		it, ok := obj.Type().Underlying().(*types.Interface)
		if !ok {
			p.CS.Errors = append(p.CS.Errors, fmt.Sprintf("%s:%d: %q is not an interface", fc.File, fc.Line, fc.Implementing))
			continue
		}
		prefix := strings.TrimSuffix(fc.Name, "*")
		for m := 0; m < it.NumMethods(); m++ {
			cp := *fc
			cp.Implementing = ""
			cp.Name = prefix + it.Method(m).Name()
			k := fc.PkgPath + "." + cp.Name
			// a contract written for one method adds its clauses to the template's
			if own := p.CS.Funcs[k]; own != nil && own != fc {
				cp.Items = append(append([]Item{}, fc.Items...), own.Items...)
				cp.Asserts = append(append([]AtAssert{}, fc.Asserts...), own.Asserts...)
				cp.Opts = map[string]string{}
				for ok, ov := range fc.Opts {
					cp.Opts[ok] = ov
				}
				for ok, ov := range own.Opts {
					cp.Opts[ok] = ov
				}
				if len(own.Loops) > 0 {
					cp.Loops = own.Loops
				}
				for _, pr := range own.Props {
					if !hasProp(cp.Props, pr) {
						cp.Props = append(append([]string{}, cp.Props...), pr)
					}
				}
			}
			p.CS.Funcs[k] = &cp
		}
	}
}

// funcKey: "pkgpath.Name" for functions, "pkgpath.(*T).M" / "pkgpath.T.M" for methods, closures "pkgpath.F$1".
func funcKey(fn *ssa.Function) string {
	if o := fn.Origin(); o != nil {
		fn = o
	}
	if fn.Parent() != nil {
		pk := funcKey(fn.Parent())
		if pk == "" {
			return ""
		}
		// name of anonymous function is Parent$N already
		i := strings.LastIndex(fn.Name(), "$")
		if i < 0 {
			return ""
		}
		// Parent key + suffix after parent's own name
		pn := fn.Parent().Name()
		return pk + strings.TrimPrefix(fn.Name(), pn)
	}
	var pkg *types.Package
	if fn.Pkg != nil {
		pkg = fn.Pkg.Pkg
	} else if fn.Object() != nil {
		pkg = fn.Object().Pkg()
	}
	if pkg == nil {
		return ""
	}
	if recv := fn.Signature.Recv(); recv != nil {
		rt := recv.Type()
		ptr := false
		if p, ok := rt.(*types.Pointer); ok {
			rt = p.Elem()
			ptr = true
		}
		name := ""
		switch n := rt.(type) {
		case *types.Named:
			name = n.Obj().Name()
		case *types.Alias:
			name = n.Obj().Name()
		default:
			return ""
		}
		if ptr {
			return pkg.Path() + ".(*" + name + ")." + fn.Name()
		}
		return pkg.Path() + "." + name + "." + fn.Name()
	}
	return pkg.Path() + "." + fn.Name()
}

// lookupPkg resolves a package qualifier as used in a contract of package `from`.
func (p *Program) lookupPkg(from string, name string) *types.Package {
	if pk, ok := p.ByPath[from]; ok {
		for path, imp := range pk.Imports {
			if imp.Name == name || filepath.Base(path) == name {
				return imp.Types
			}
		}
		if pk.Name == name {
			return pk.Types
		}
	}
	// a standard-library package whose path is the name itself
	if pk, ok := p.ByPath[name]; ok {
		return pk.Types
	}
	// fall back: unique package with that name, preferring the repo module
	var cands []*packages.Package
	for _, pk := range p.ByName[name] {
		cands = append(cands, pk)
	}
	sort.Slice(cands, func(i, j int) bool {
		ri := strings.HasPrefix(cands[i].PkgPath, repoModule)
		rj := strings.HasPrefix(cands[j].PkgPath, repoModule)
		if ri != rj {
			return ri
		}
		return cands[i].PkgPath < cands[j].PkgPath
	})
	if len(cands) > 0 {
		return cands[0].Types
	}
	return nil
}
