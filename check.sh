#!/bin/sh
# usage: check.sh <property id> <quick|thorough>
# quick: discharge every obligation of the property once (z3-new then z3 4.8, 10 s per query).
# thorough: 60 s per query, every obligation must also discharge under a second solver configuration,
#           then the must-fail corpus of the property is replayed on scratch copies of /repo.
prop="$1"; tier="${2:-quick}"
export GOFLAGS=-mod=mod GOPROXY=off GOSUMDB=off GOTOOLCHAIN=local
[ -x /verif/bin/gbv ] || (cd /verif/engine && go build -o /verif/bin/gbv .) || exit 2
/verif/bin/gbv check "$prop" --tier "$tier"
rc=$?
if [ "$tier" = "thorough" ] && [ $rc -eq 0 ]; then
  python3 /verif/selftest/run.py --props "$prop" --jobs 4 > /tmp/gbv-selftest-$prop.log 2>&1
  st=$?
  tail -1 /tmp/gbv-selftest-$prop.log
  if [ $st -ne 0 ]; then
    mkdir -p /verif/replay
    cp /tmp/gbv-selftest-$prop.log /verif/replay/$prop-selftest.txt
    echo "VIOLATION property=$prop replay=/verif/replay/$prop-selftest.txt obligation=selftest-mutant-not-detected no-failing-input-found"
    rc=1
  fi
  rm -f /tmp/gbv-selftest-$prop.log
fi
exit $rc
