#!/bin/sh
# usage: check.sh <property id> <quick|thorough>
# quick: discharge every obligation of the property once (z3-new then z3 4.8, 10 s per query).
# thorough: 60 s per query, every obligation must also discharge under a second solver configuration,
#           then the must-fail corpus of the property is replayed on scratch copies of /repo (a self-check of the
#           machinery: it prints a warning, it never turns into a verdict about the tree).
prop="$1"; tier="${2:-quick}"
export GOFLAGS=-mod=mod GOPROXY=off GOSUMDB=off GOTOOLCHAIN=local
[ -x /verif/bin/gbv ] || (cd /verif/engine && go build -o /verif/bin/gbv .) || exit 2
/verif/bin/gbv check "$prop" --tier "$tier"
rc=$?
if [ "$tier" = "thorough" ] && [ $rc -eq 0 ]; then
  # self-check of the machinery (never a verdict about the tree): every must-fail edit of this property that still
  # applies to the current tree must be caught; an edit whose text is gone (the tree was changed there) is skipped
  python3 /verif/selftest/run.py --props "$prop" --jobs 4 > /tmp/gbv-selftest-$prop.log 2>&1
  st=$?
  echo "SELFTEST $prop: $(tail -1 /tmp/gbv-selftest-$prop.log)"
  if [ $st -ne 0 ]; then
    mkdir -p /verif/replay
    cp /tmp/gbv-selftest-$prop.log /verif/replay/$prop-selftest.txt
    echo "MACHINERY-WARNING property=$prop a must-fail edit was not caught as expected, see /verif/replay/$prop-selftest.txt (this is about the checker, not about the tree)"
  fi
  rm -f /tmp/gbv-selftest-$prop.log
fi
exit $rc
