#!/usr/bin/env python3
"""Must-fail corpus: every mutant (a property-breaking edit that still compiles) must make the check of
its property report a VIOLATION naming the expected obligation; the unmodified scratch copy must pass.
Scratch copies of /repo are made outside /repo and /verif and removed afterwards.
usage: run.py [--only substring] [--jobs N] [--props C20,C13]"""
import json, os, shutil, subprocess, sys, tempfile, concurrent.futures, argparse

HERE = os.path.dirname(os.path.abspath(__file__))
ap = argparse.ArgumentParser()
ap.add_argument('--only', default='')
ap.add_argument('--jobs', type=int, default=4)
ap.add_argument('--props', default='')
args = ap.parse_args()
mutants = json.load(open(os.path.join(HERE, 'mutants.json')))
if args.only:
    mutants = [m for m in mutants if any(o in m['name'] for o in args.only.split(','))]
if args.props:
    ps = set(args.props.split(','))
    mutants = [m for m in mutants if m['prop'] in ps]

ENV = dict(os.environ, GOFLAGS='-mod=mod', GOPROXY='off', GOSUMDB='off', GOTOOLCHAIN='local')

def make_scratch():
    d = tempfile.mkdtemp(prefix='gbv-selftest-')
    subprocess.check_call(['rsync', '-a', '--exclude', '.git', '/repo/', d + '/repo/'])
    return d

def run_one(scratch, m):
    repo = scratch + '/repo'
    # a build cache of its own, removed with the scratch copy: every mutant build adds some 0.3 GB of objects, which
    # must not pile up in the user's cache
    env = dict(ENV, GOCACHE=scratch + '/gocache')
    path = os.path.join(repo, m['file'])
    src = open(path).read()
    if m['old'] not in src:
        return (m['name'], 'STALE', 'old text not found in ' + m['file'])
    new = src.replace(m['old'], m['new'], 1)
    # further edits of the same file (a change made of two cooperating sites)
    for o, n in m.get('also', []):
        if o not in new:
            return (m['name'], 'STALE', 'additional old text not found in ' + m['file'])
        new = new.replace(o, n, 1)
    open(path, 'w').write(new)
    try:
        b = subprocess.run(['go', 'build', './...'], cwd=repo, env=env, capture_output=True, text=True)
        if b.returncode != 0:
            return (m['name'], 'NOBUILD', b.stderr[-400:])
        out = tempfile.mkdtemp(prefix='gbv-selftest-out-')
        r = subprocess.run(['/verif/bin/gbv', 'check', m['prop'], '--repo', repo, '--out', out], capture_output=True, text=True, env=env)
        shutil.rmtree(out, ignore_errors=True)
        viol = [l for l in r.stdout.splitlines() if l.startswith('VIOLATION')]
        exp = m.get('expect', '')
        hit = [l for l in viol if exp in l]
        if r.returncode == 1 and hit:
            return (m['name'], 'DETECTED', hit[0][:220])
        if r.returncode == 1 and viol:
            return (m['name'], 'DETECTED-OTHER', viol[0][:220])
        return (m['name'], 'MISSED', r.stdout[-300:])
    finally:
        open(path, 'w').write(src)

def worker(chunk):
    scratch = make_scratch()
    try:
        return [run_one(scratch, m) for m in chunk]
    finally:
        shutil.rmtree(scratch, ignore_errors=True)

jobs = max(1, min(args.jobs, len(mutants)))
chunks = [mutants[i::jobs] for i in range(jobs)]
bad = 0
with concurrent.futures.ThreadPoolExecutor(jobs) as ex:
    for res in ex.map(worker, chunks):
        for name, status, info in res:
            print(f'{status:15s} {name}: {info}')
            if status not in ('DETECTED', 'STALE'):
                bad += 1
print(f'{len(mutants)} mutants, {bad} not detected as expected')
sys.exit(1 if bad else 0)
