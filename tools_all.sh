#!/bin/bash
# Run every claimed check (quick tier) on the current tree, in parallel; print one line per property.
# Use before every commit that touches the engine or a contract file.
export GOFLAGS=-mod=mod GOPROXY=off GOSUMDB=off GOTOOLCHAIN=local
cd /verif
props=$(python3 -c "import json; print(' '.join(c['property_id'] for c in json.load(open('/verif/MANIFEST.json'))['checks']))")
tmp=$(mktemp -d /tmp/gbv-all-XXXX)
i=0
for p in $props; do
  ( bin/gbv check $p > $tmp/$p.log 2>&1; echo "$p exit=$? $(tail -1 $tmp/$p.log)" ) &
  i=$((i+1)); if [ $((i % 4)) -eq 0 ]; then wait; fi
done
wait
grep -h "^VIOLATION" $tmp/*.log | cut -c1-300
rm -rf $tmp
