#!/bin/sh
# stability sweep: every registered property under several seeds; prints violations and slow obligations
export GOFLAGS=-mod=mod GOPROXY=off GOSUMDB=off GOTOOLCHAIN=local
[ -x /verif/bin/gbv ] || (cd /verif/engine && go build -o /verif/bin/gbv .)
for seed in 1 2 3 4 5; do
  for p in $(python3 -c "import json;print(' '.join(c['property_id'] for c in json.load(open('/verif/MANIFEST.json'))['checks']))"); do
    out=$(mktemp -d /tmp/gbv-stab-XXXX)
    VERIF_SEED=$seed /verif/bin/gbv check $p --out $out -v > $out/log 2>&1
    rc=$?
    echo "seed=$seed $p rc=$rc $(tail -1 $out/log | head -c 0)$(grep -c 'unsat' $out/log) unsat"
    grep VIOLATION $out/log | sed 's/replay=[^ ]* //' | cut -c1-220
    awk '$1=="unsat" && $2+0 > 3.0 {print "  SLOW", $2, $4}' $out/log | cut -c1-200
    rm -rf $out
  done
done
